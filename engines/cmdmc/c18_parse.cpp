// C18: client requests are parsed to exactly what the client encoded.
//  a  TCP: all argument vectors (<=3 arguments, each <=3 characters over {a,b,blank,",'}) written
//     by a reference client in every encoding the statement allows -> RequestImpl::add/split
//  b  HTTP: all URIs of <=N segments from the DESIGN segment alphabet (with / without query) and
//     all raw URIs up to a length over {%,2,5,e,f,/,.,a} -> RequestImpl::add/split and
//     MainLoop::decodeRequest (executeGet) on a real html root with marker files inside/outside
//  c  MQTT: all matchable topic templates (permutation of a subset of %circuit/%name/%field,
//     separated by constants, optional constant prefix/suffix, both %x and %{x} notation) x
//     identifier triples x {get,set,list}: StringReplacer::parse/get/match used the way
//     MqttHandler does.
//  d  delivery: the same requests with LF and CRLF line ends, handed to RequestImpl::add in pieces the way
//     Connection::run does (one add() per recv() of <=255 bytes): whole, cut between CR and LF of every
//     line end, (small sub-universe) every cut into <=3 pieces and byte by byte, and long lines cut by the
//     255 byte receive buffer.  The arguments must not depend on line end style or segmentation and the
//     request must be reported complete by exactly the piece that carries the terminating LF.
// References (RefSplit = the encoder itself, RefPercent, the template semantics) are written from
// the property statement.
#include <algorithm>
#include <set>
#include "mainloop_fixture.h"
#include "lib/ebus/stringhelper.h"

using namespace ebusd;
using namespace fx;
using std::string;
using std::vector;

static vp::Result R;
static bool g_delivery = true;  // --delivery 0 switches part d off (cost measurements only)

static vector<string> stringsOver(const string& alpha, size_t maxLen, bool withEmpty) {
  vector<string> out, cur = {""};
  if (withEmpty) out.push_back("");
  for (size_t l = 1; l <= maxLen; l++) {
    vector<string> next;
    for (auto& p : cur) for (char c : alpha) next.push_back(p + c);
    out.insert(out.end(), next.begin(), next.end());
    cur = next;
  }
  return out;
}

// ================================ (a) TCP argument splitting =====================================
// Statement: "a token starting with a quote character extends to the token ending with that quote,
// repeated blanks outside quotes separate once".  A token is a maximal run of non-blank characters.
static bool isQuote(char c) { return c == '"' || c == '\''; }
static bool needsQuote(const string& x) { return x.empty() || x.find(' ') != string::npos || isQuote(x[0]); }
// may x be written as q x q without the quoted region closing before its end?
static bool quoteOk(const string& x, char q) {
  // pieces of x between single blanks; the wire tokens are q+piece0, piece1, ..., pieceLast+q
  vector<string> pieces;
  size_t pos = 0;
  while (true) {
    size_t e = x.find(' ', pos);
    if (e == string::npos) { pieces.push_back(x.substr(pos)); break; }
    pieces.push_back(x.substr(pos, e - pos));
    pos = e + 1;
  }
  for (size_t j = 0; j + 1 < pieces.size(); j++) {
    const string& p = pieces[j];
    if (p.empty()) continue;  // lone opening quote (j==0) or an empty token between two blanks
    if (p.back() == q) return false;  // a token ending with the quote would close the argument early
  }
  return true;
}
static vector<string> encodingsOf(const string& x) {
  vector<string> out;
  if (!needsQuote(x)) out.push_back(x);
  for (char q : {'"', '\''}) if (quoteOk(x, q)) out.push_back(string(1, q) + x + string(1, q));
  return out;
}
static string argClass(const string& x) {
  if (x.empty()) return "empty";
  string c;
  if (x[0] == ' ') c += "L";
  if (x.back() == ' ') c += "T";
  if (x.find("  ") != string::npos) c += "D";
  else if (x.find(' ') != string::npos) c += "B";
  if (x.find('"') != string::npos || x.find('\'') != string::npos) c += "Q";
  return c.empty() ? "plain" : c;
}
static string showVec(const vector<string>& v) {
  string o = "[";
  for (size_t i = 0; i < v.size(); i++) o += (i ? "," : "") + string("<") + esc(v[i]) + ">";
  return o + "]";
}
static vector<string> implSplit(const string& wire, bool* complete) {
  RequestImpl req(false);
  *complete = req.add(wire.c_str());
  vector<string> got;
  if (*complete) req.split(&got);
  R.transitions += 2;
  return got;
}
// returns "" or the class of the first differing argument
static string checkSplit(const vector<string>& args, const string& wire, bool log) {
  bool complete;
  vector<string> got = implSplit(wire, &complete);
  if (log) printf("client arguments %s\nwire line        <%s>\nsplit            %s%s\n", showVec(args).c_str(), esc(wire).c_str(),
                  showVec(got).c_str(), complete ? "" : " (request not complete)");
  if (complete && got == args) return "";
  for (size_t i = 0; i < args.size(); i++) if (i >= got.size() || got[i] != args[i]) return argClass(args[i]);
  return "extra-arguments";
}
// enumerate all wire forms of a vector
static void forEachWire(const vector<string>& args, size_t maxBlanks, const std::function<void(const string&, const string&)>& fn) {
  vector<vector<string>> enc;
  for (auto& a : args) { enc.push_back(encodingsOf(a)); if (enc.back().empty()) { R.count("a_unencodable_vectors"); return; } }
  vector<size_t> ei(args.size(), 0), bi(args.size() > 0 ? args.size() - 1 : 0, 1);
  while (true) {
    string wire, key;
    for (size_t i = 0; i < args.size(); i++) {
      if (i) wire += string(bi[i - 1], ' ');
      wire += enc[i][ei[i]];
    }
    for (size_t i = 0; i < args.size(); i++) key += std::to_string(ei[i]);
    key += "/";
    for (size_t b : bi) key += std::to_string(b);
    fn(wire + "\n", key);
    // next combination
    size_t k = 0;
    for (; k < bi.size(); k++) { if (++bi[k] <= maxBlanks) break; bi[k] = 1; }
    if (k < bi.size()) continue;
    for (k = 0; k < ei.size(); k++) { if (++ei[k] < enc[k].size()) break; ei[k] = 0; }
    if (k == ei.size()) break;
  }
}
static void standardDeliveries(bool http, const vector<string>& lines, const vector<string>& want, int baseVerdict);
static void runSplitVector(const vector<string>& args, size_t maxBlanks) {
  forEachWire(args, maxBlanks, [&](const string& wire, const string& key) {
    R.evaluations++; R.tracesValidated++;
    string cls = checkSplit(args, wire, false);
    if (g_delivery) standardDeliveries(false, {wire.substr(0, wire.size() - 1)}, args, cls.empty() ? 1 : 0);
    if (!cls.empty()) {
      string cs = "k=split;n=" + std::to_string(args.size());
      for (size_t i = 0; i < args.size(); i++) cs += ";a" + std::to_string(i) + "=" + toHex(args[i]);
      cs += ";wire=" + toHex(wire);
      R.violation("C18/split/argument-changed/" + cls, "client wrote " + showVec(args) + " as <" + esc(wire) + ">", cs);
    }
  });
}

// ================================ (d) delivery: line ends and segmentation ==============================
// The byte stream of a connection reaches RequestImpl::add in the pieces recv() returns (network.cpp:
// char data[256]; recv(data, 255); add(data)).  What the client encoded must not depend on the cuts.
static vector<string> cutStream(const string& stream, const vector<size_t>& cuts) {
  vector<string> out;
  size_t from = 0;
  for (size_t c : cuts) { if (c > from && c < stream.size()) { out.push_back(stream.substr(from, c - from)); from = c; } }
  out.push_back(stream.substr(from));
  return out;
}
static vector<size_t> bufferCuts(size_t len, size_t buf) { vector<size_t> c; for (size_t p = buf; p < len; p += buf) c.push_back(p); return c; }
struct Delivered { bool complete = false; size_t at = 0; size_t pieces = 0; vector<string> args; };
static Delivered deliver(bool http, const vector<string>& pcs) {
  Delivered d;
  d.pieces = pcs.size();
  RequestImpl req(http);
  for (size_t i = 0; i < pcs.size(); i++) {
    R.transitions++;
    if (req.add(pcs[i].c_str())) { d.complete = true; d.at = i; break; }
  }
  if (d.complete) req.split(&d.args);
  return d;
}
static string cutClass(const string& stream, const vector<size_t>& cuts, const char* family) {
  if (cuts.empty()) return "whole";
  if (family) return family;
  for (size_t c : cuts) if (c > 0 && c < stream.size() && stream[c - 1] == '\r' && stream[c] == '\n') return "cut-cr-lf";
  return "cut-other";
}
// judges one delivery; want = the arguments the client encoded.  returns "" or "<rule>"
static string judgeDelivery(bool http, const string& stream, const vector<size_t>& cuts, const vector<string>& want, bool log) {
  vector<string> pcs = cutStream(stream, cuts);
  Delivered d = deliver(http, pcs);
  if (log) {
    printf("stream           <%s>\npieces          ", esc(stream).c_str());
    for (auto& p : pcs) printf(" <%s>", esc(p).c_str());
    printf("\nexpected         %s, complete with piece %zu of %zu\n", showVec(want).c_str(), pcs.size(), pcs.size());
    if (d.complete) printf("implementation   %s, complete with piece %zu of %zu\n", showVec(d.args).c_str(), d.at + 1, pcs.size());
    else printf("implementation   request never reported complete\n");
  }
  if (!d.complete) return "request-incomplete";
  if (d.at + 1 != pcs.size()) return "completed-early";
  if (d.args != want) return "argument-changed";
  return "";
}
static string cutsStr(const vector<size_t>& cuts) { string o; for (size_t c : cuts) o += (o.empty() ? "" : ",") + std::to_string(c); return o; }
static void deliveryCase(bool http, const string& stream, const vector<size_t>& cuts, const vector<string>& want, const char* eol, const char* family) {
  R.evaluations++; R.tracesValidated++;
  string rule = judgeDelivery(http, stream, cuts, want, false);
  if (rule.empty()) return;
  string cs = string("k=dlv;h=") + (http ? "1" : "0") + ";s=" + toHex(stream) + ";cuts=" + cutsStr(cuts) + ";n=" + std::to_string(want.size());
  for (size_t i = 0; i < want.size(); i++) cs += ";a" + std::to_string(i) + "=" + toHex(want[i]);
  R.violation(string("C18/delivery/") + rule + "/" + (http ? "http" : "tcp") + "/" + eol + "-" + cutClass(stream, cuts, family),
              "stream <" + esc(stream) + "> cut at [" + cutsStr(cuts) + "], client encoded " + showVec(want), cs);
}
// the delivery variants applied to EVERY request of the universes a and b: whole with the other line end
// style, and cut between CR and LF of each line end
// A request that is already parsed wrongly when it arrives whole with LF line ends is reported once for that
// delivery only (its other deliveries would repeat the same defect under further signatures).
static bool baseDeliveryOk(bool http, const vector<string>& lines, const vector<string>& want, bool report) {
  string stream;
  for (auto& l : lines) stream += l + "\n";
  if (judgeDelivery(http, stream, {}, want, false).empty()) return true;
  if (report) deliveryCase(http, stream, {}, want, "lf", nullptr);
  return false;
}
// baseVerdict: 1 = the LF/whole delivery was already judged fine by the caller, 0 = judged bad by the caller
// (and reported there), -1 = not judged yet
static void standardDeliveries(bool http, const vector<string>& lines, const vector<string>& want, int baseVerdict) {
  if (baseVerdict == 0) return;
  bool lfWholeDone = true;
  if (baseVerdict < 0) { R.evaluations++; R.tracesValidated++; if (!baseDeliveryOk(http, lines, want, true)) return; }
  for (const char* eol : {"\n", "\r\n"}) {
    string stream;
    vector<size_t> ends;
    for (auto& l : lines) { stream += l + eol; ends.push_back(stream.size()); }
    bool crlf = eol[0] == '\r';
    const char* en = crlf ? "crlf" : "lf";
    if (!(lfWholeDone && !crlf)) deliveryCase(http, stream, {}, want, en, nullptr);
    if (crlf) {
      for (size_t e : ends) deliveryCase(http, stream, {e - 1}, want, en, nullptr);  // CR | LF
      if (ends.size() > 1) { vector<size_t> all; for (size_t e : ends) all.push_back(e - 1); deliveryCase(http, stream, all, want, en, nullptr); }
    }
  }
}
// the sub-universe: every cut into <=3 pieces, and byte by byte, both line end styles
static void allDeliveries(bool http, const vector<string>& lines, const vector<string>& want) {
  if (!baseDeliveryOk(http, lines, want, false)) return;  // reported by the universes a / b
  for (const char* eol : {"\n", "\r\n"}) {
    string stream;
    for (auto& l : lines) stream += l + eol;
    const char* en = eol[0] == '\r' ? "crlf" : "lf";
    size_t n = stream.size();
    for (size_t i = 1; i < n; i++) {
      deliveryCase(http, stream, {i}, want, en, nullptr);
      for (size_t j = i + 1; j < n; j++) deliveryCase(http, stream, {i, j}, want, en, nullptr);
    }
    vector<size_t> each;
    for (size_t i = 1; i < n; i++) each.push_back(i);
    deliveryCase(http, stream, each, want, en, "bytewise");
  }
}

// ================================ (b) HTTP ===================================================
static int hexVal(char c) {
  if (c >= '0' && c <= '9') return c - '0';
  if (c >= 'a' && c <= 'f') return c - 'a' + 10;
  if (c >= 'A' && c <= 'F') return c - 'A' + 10;
  return -1;
}
// every well-formed escape is decoded exactly once (output is never rescanned); a '%' that is not
// followed by two hex digits is not an escape and stays
static string refPercent(const string& s, bool* malformed) {
  string o;
  *malformed = false;
  for (size_t i = 0; i < s.size();) {
    if (s[i] == '%') {
      if (i + 2 < s.size() && hexVal(s[i + 1]) >= 0 && hexVal(s[i + 2]) >= 0) {
        o += static_cast<char>(hexVal(s[i + 1]) * 16 + hexVal(s[i + 2]));
        i += 3;
        continue;
      }
      *malformed = true;
    }
    o += s[i++];
  }
  return o;
}
static bool refPercentSelfTest() {
  struct T { const char* in; const char* out; bool mal; } t[] = {
    {"/a", "/a", false}, {"/%2e", "/.", false}, {"/%2E%2e", "/..", false}, {"/%252e", "/%2e", false}, {"/%25", "/%", false},
    {"/%", "/%", true}, {"/%4", "/%4", true}, {"/%zz", "/%zz", true}, {"/%zz%41", "/%zzA", true}, {"%2", "%2", true},
    {"/%2f", "//", false}, {"/..%2f", "/../", false}, {"%%41", "%A", true}, {"/%2%41", "/%2A", true},
  };
  for (auto& x : t) {
    bool m;
    if (refPercent(x.in, &m) != x.out || m != x.mal) { fprintf(stderr, "RefPercent self-test failed on %s\n", x.in); return false; }
  }
  return true;
}

static World* g_world = nullptr;
static World* httpWorld() {
  if (!g_world) {
    WorldConfig wc;
    wc.csv = "# defs\nr,main,temp,,,08,b509,0d01,value,,UCH\n";
    wc.withHtml = true;
    g_world = new World(wc);
  }
  return g_world;
}
struct HttpObs {
  bool complete = false;
  vector<string> args;
  int status = 0;
  string body;
};
static HttpObs httpRun(const string& uri) {
  HttpObs o;
  World* w = httpWorld();
  string user;
  Reply r = runRequest(w, true, "GET " + uri + " HTTP/1.1\r\nHost: x\r\n\r\n", &user);
  R.transitions += 3;
  o.complete = r.complete;
  o.args = r.args;
  o.status = httpStatus(r.text);
  o.body = httpBody(r.text);
  return o;
}
// returns "" or "<rule>/<class>"
static string checkHttp(const string& uri, bool log) {
  bool malformed;
  string ref = refPercent(uri, &malformed);
  size_t qp = ref.find('?');
  string refPath = qp == string::npos ? ref : ref.substr(0, qp);
  string refQuery = qp == string::npos ? "" : ref.substr(qp + 1);
  HttpObs o = httpRun(uri);
  string gotPath = o.args.size() > 1 ? o.args[1] : "";
  string gotQuery = o.args.size() > 2 ? o.args[2] : "";
  string marker = o.body.substr(0, o.body.find('\n'));
  if (log) {
    printf("request line     <GET %s HTTP/1.1>\n", esc(uri).c_str());
    printf("reference decode path <%s> query <%s>%s\n", esc(refPath).c_str(), esc(refQuery).c_str(), malformed ? " (contains a malformed escape, left as is)" : "");
    printf("implementation   path <%s> query <%s> (method <%s>, %zu parts)\n", esc(gotPath).c_str(), esc(gotQuery).c_str(),
           o.args.empty() ? "" : esc(o.args[0]).c_str(), o.args.size());
    printf("response         status %d, body starts <%s>\n", o.status, esc(marker.substr(0, 60)).c_str());
  }
  if (!o.complete) return "request-incomplete/any";
  // served content must come from inside the root
  if (o.status == 200 && o.body.find("OUT:") != string::npos) return "served-outside-root/" + string(uri.find('%') != string::npos ? "encoded" : "literal");
  bool same = gotPath == refPath && gotQuery == refQuery && o.args.size() >= 2 && o.args[0] == "GET";
  if (same) {
    if (o.status == 200 && marker.compare(0, 3, "IN:") == 0) R.count("b_served_inside");
    return "";
  }
  if (malformed && o.status == 400) return "";  // refusing a malformed request is fine
  // classify
  bool m2;
  string twice = refPercent(ref, &m2);
  string got = gotPath + (gotQuery.empty() ? "" : "?" + gotQuery);
  string where = gotPath != refPath ? "path" : "query";
  if (got == uri) return string(malformed ? "escape-not-decoded-malformed-present/" : "escape-not-decoded/") + where;
  if (got == twice) return "escape-decoded-twice/" + where;
  return string(malformed ? "decode-differs-malformed/" : "decode-differs/") + where;
}
static const char* SEGS[] = {"", ".", "..", "%2e", "%2E%2e", ".%2e", "%252e%252e", "%2f", "..%2f", "%25", "%", "%4", "%zz", "a", "x.js", "index.html"};
static const size_t NSEGS = sizeof(SEGS) / sizeof(SEGS[0]);
static const char* QUERIES[] = {"", "?q=%41%2e&r=%2541", "?x?y=%3f&z"};

// the arguments an HTTP request line encodes (nullptr semantics: empty vector = not judged, malformed escape)
static vector<string> httpWant(const string& uri) {
  bool malformed;
  string ref = refPercent(uri, &malformed);
  if (malformed || ref.find_first_of(" \n\r") != string::npos) return {};
  size_t qp = ref.find('?');
  vector<string> want = {"GET", qp == string::npos ? ref : ref.substr(0, qp)};
  if (qp != string::npos && qp + 1 < ref.size()) want.push_back(ref.substr(qp + 1));
  return want;
}
static void httpCase(const string& uri, const char* kind) {
  R.evaluations++; R.tracesValidated++;
  if (g_delivery) {
    vector<string> want = httpWant(uri);
    if (!want.empty()) standardDeliveries(true, {"GET " + uri + " HTTP/1.1", "Host: x", ""}, want, -1);
  }
  string rule = checkHttp(uri, false);
  if (!rule.empty()) R.violation("C18/http/" + rule, string("GET <") + esc(uri) + ">", string("k=") + kind + ";uri=" + toHex(uri));
}

// ================================ (c) MQTT topic templates ============================================
static const char* FIELDS[] = {"circuit", "name", "field"};
struct Tmpl { string text; vector<int> order; };
// all templates: optional prefix, fields in `order` separated by constants, optional suffix
static vector<Tmpl> allTemplates() {
  // "1/": a constant that starts with a digit directly behind a variable (a variable name consists of letters and '_')
  vector<string> consts = {"/", "ebusd/", "/x/", "1/"};
  vector<string> prefixes = {"", "/", "ebusd/", "/x/"};
  vector<string> suffixes = {"", "/s", "2"};
  vector<vector<int>> orders;
  for (int mask = 1; mask < 8; mask++) {
    vector<int> idx;
    for (int i = 0; i < 3; i++) if (mask & (1 << i)) idx.push_back(i);
    std::sort(idx.begin(), idx.end());
    do orders.push_back(idx); while (std::next_permutation(idx.begin(), idx.end()));
  }
  vector<Tmpl> out;
  for (auto& ord : orders) {
    size_t nsep = ord.size() - 1;
    size_t combos = 1;
    for (size_t i = 0; i < nsep; i++) combos *= consts.size();
    for (size_t cmb = 0; cmb < combos; cmb++) for (auto& pre : prefixes) for (auto& suf : suffixes) for (int brace = 0; brace < 2; brace++) {
      string t = pre;
      size_t x = cmb;
      for (size_t i = 0; i < ord.size(); i++) {
        t += brace ? string("%{") + FIELDS[ord[i]] + "}" : string("%") + FIELDS[ord[i]];
        if (i + 1 < ord.size()) { t += consts[x % consts.size()]; x /= consts.size(); }
      }
      t += suf;
      out.push_back(Tmpl{t, ord});
    }
  }
  return out;
}
// returns "" / "skip:<why>" / "<rule>/<class>"
static string checkTopic(const Tmpl& t, const string& c, const string& n, const string& f, const string& dir, bool log) {
  StringReplacer rep;
  bool parsed = rep.parse(t.text, true, true);  // as MqttHandler does for the configured topic
  R.transitions++;
  if (log) printf("template <%s> parse=%d\n", t.text.c_str(), parsed);
  if (!parsed) {
    // e.g. %circuitebusd/ is an unknown field name: a variable written without braces extends over the following
    // letters and underscores.  Every other template of the enumeration names only the three known fields and
    // has to be accepted (a refused template silently disables the whole topic scheme).
    bool glued = false;
    for (size_t p = t.text.find('%'); p != string::npos; p = t.text.find('%', p + 1)) {
      if (p + 1 < t.text.size() && t.text[p + 1] == '{') continue;
      size_t e = p + 1;
      while (e < t.text.size() && (isalpha(static_cast<unsigned char>(t.text[e])) || t.text[e] == '_')) e++;
      string nm = t.text.substr(p + 1, e - p - 1);
      if (nm != "circuit" && nm != "name" && nm != "field") glued = true;
    }
    if (glued) return "skip:template-rejected";
    return "template-refused/valid";
  }
  bool matchable = rep.checkMatchability();
  if (log) printf("checkMatchability=%d\n", matchable);
  if (!matchable) return "skip:not-matchable";
  bool has[3] = {false, false, false};
  for (int i : t.order) has[i] = true;
  // a topic without a field value is only formed when %field is the last variable (or absent)
  if (f.empty() && has[2] && t.order.back() != 2) return "skip:truncated-topic";
  string topic = rep.get(c, n, f) + "/" + dir;
  // MqttHandler::notifyMqttTopic: the part after the last '/' is the direction, the rest is matched
  size_t pos = topic.rfind('/');
  string matchTopic = topic.substr(0, pos);
  string gc, gn, gf;
  ssize_t ret = rep.match(matchTopic, &gc, &gn, &gf);
  R.transitions += 2;
  if (log) printf("triple (%s,%s,%s) -> topic <%s> -> match returns %zd with (%s,%s,%s)\n", c.c_str(), n.c_str(), f.c_str(), topic.c_str(), ret, gc.c_str(), gn.c_str(), gf.c_str());
  string wc = has[0] ? c : "", wn = has[1] ? n : "", wf = has[2] ? f : "";
  if (gc != wc) return "triple-changed/circuit";
  if (gn != wn) return "triple-changed/name";
  if (gf != wf) return "triple-changed/field";
  // the return value is not judged: a negative value ("incomplete") only makes MqttHandler log the topic
  // as unmatchable while it still uses the triple (it is the normal case for a message topic under a
  // template that ends with %field)
  R.count(ret < 0 ? "c_match_negative_return" : "c_match_complete");
  return "";
}

// ---- several requests through ONE RequestImpl (one per connection in Connection::run) --------------------------
struct Rq { const char* line; vector<string> want; };
static const vector<Rq> TCPSET = {
  {"read -f -c c m0", {"read", "-f", "-c", "c", "m0"}}, {"find", {"find"}}, {"write -c c w \"a  b\"", {"write", "-c", "c", "w", "a  b"}},
  {"auth u ''", {"auth", "u", ""}}, {"x", {"x"}}, {"read 'q r'", {"read", "q r"}}, {"a  b", {"a", "b"}},
};
static const vector<Rq> HTTPSET = {
  {"/data/c/m0?exact=1", {"GET", "/data/c/m0", "exact=1"}}, {"/", {"GET", "/"}}, {"/a%2ejs?x?y", {"GET", "/a.js", "x?y"}}, {"/index.html", {"GET", "/index.html"}},
};
static string runSequence(bool http, const vector<size_t>& seq, bool crlf, bool cut, string* trace, size_t* failedAt, bool log) {
  const vector<Rq>& S = http ? HTTPSET : TCPSET;
  const char* eol = crlf ? "\r\n" : "\n";
  RequestImpl req(http);
  for (size_t k = 0; k < seq.size(); k++) {
    if (seq[k] >= S.size()) return "bad-case";
    const Rq& rq = S[seq[k]];
    string stream = http ? "GET " + string(rq.line) + " HTTP/1.1" + eol + "Host: x" + eol + eol : string(rq.line) + eol;
    vector<string> pcs = cut ? cutStream(stream, {stream.size() - 1}) : vector<string>{stream};
    bool done = false;
    for (size_t i = 0; i < pcs.size(); i++) { R.transitions++; done = req.add(pcs[i].c_str()); if (done && i + 1 != pcs.size()) break; }
    vector<string> got;
    if (done) req.split(&got);
    if (log) printf("request %zu       <%s> in %zu piece(s): %s%s, client encoded %s\n", k + 1, esc(stream).c_str(), pcs.size(), done ? "" : "NOT COMPLETE ",
                    showVec(got).c_str(), showVec(rq.want).c_str());
    string rule = !done ? "request-incomplete" : got != rq.want ? "argument-changed" : "";
    if (!rule.empty()) {
      *trace = "request " + std::to_string(k + 1) + " <" + esc(rq.line) + "> parsed to " + showVec(got) + ", client encoded " + showVec(rq.want);
      *failedAt = k;
      return rule;
    }
    // the response is set by the main loop and fetched by the connection thread
    RequestMode mode = req.getMode();
    req.setResult("done", "", &mode, 0, false);
    string res;
    req.waitResponse(&res);
  }
  return "";
}

// ================================ replay / main ===================================================
static int replay(const string& cs) {
  auto m = vp::parseCase(cs);
  string k = m["k"], rule;
  if (k == "split") {
    vector<string> args;
    size_t n = strtoul(m["n"].c_str(), nullptr, 10);
    for (size_t i = 0; i < n; i++) args.push_back(fromHex(m["a" + std::to_string(i)]));
    rule = checkSplit(args, fromHex(m["wire"]), true);
  } else if (k == "seq") {
    vector<size_t> seq;
    std::istringstream ss(m["seq"]);
    string tok;
    while (getline(ss, tok, ',')) seq.push_back(strtoul(tok.c_str(), nullptr, 10));
    string trace;
    size_t at = 0;
    rule = runSequence(m["h"] == "1", seq, m["crlf"] == "1", m["cut"] == "1", &trace, &at, true);
  } else if (k == "dlv") {
    vector<string> want;
    size_t n = strtoul(m["n"].c_str(), nullptr, 10);
    for (size_t i = 0; i < n; i++) want.push_back(fromHex(m["a" + std::to_string(i)]));
    vector<size_t> cuts;
    std::istringstream cs2(m["cuts"]);
    string tok;
    while (getline(cs2, tok, ',')) if (!tok.empty()) cuts.push_back(strtoul(tok.c_str(), nullptr, 10));
    rule = judgeDelivery(m["h"] == "1", fromHex(m["s"]), cuts, want, true);
  } else if (k == "seg" || k == "raw") {
    rule = checkHttp(fromHex(m["uri"]), true);
    rmTree(httpWorld()->tmp);
  } else if (k == "topic") {
    Tmpl t{fromHex(m["t"]), {}};
    for (char ch : m["ord"]) t.order.push_back(ch - '0');
    rule = checkTopic(t, m["c"], m["n"], m["f"], m["dir"], true);
    if (rule.compare(0, 5, "skip:") == 0) { printf("%s\n", rule.c_str()); rule.clear(); }
  }
  printf("%s\n", rule.empty() ? "OK" : ("VIOLATES rule " + rule).c_str());
  return rule.empty() ? 0 : 1;
}

int main(int argc, char** argv) {
  setenv("TZ", "UTC", 1);
  vp::Args A = vp::parseArgs(argc, argv);
  if (!refPercentSelfTest()) return 3;
  if (A.replay) return replay(A.replayCase);
  R.setDeadline(A);
  bool th = A.thorough();
  string only = A.get("only", "");
  g_delivery = A.getInt("delivery", 1) != 0;

  // ---- (a) ---------------------------------------------------------------------------------------
  if (only.empty() || only == "a") {
    const string alpha = "ab \"'";
    vector<string> a3 = stringsOver(alpha, 3, true), a2 = stringsOver(alpha, 2, true);
    // thorough: <=3 arguments of <=3 characters, 1..3 blanks.  quick: <=3 arguments of <=2 characters
    // and <=2 arguments of <=3 characters, 1..3 blanks
    auto run = [&](const vector<string>& dom, size_t maxArgs, size_t maxBlanks) {
      uint64_t idx = 0;
      vector<string> v;
      std::function<void()> rec = [&]() {
        if (R.expired()) return;
        if ((idx++ % A.nparts) == static_cast<uint64_t>(A.part)) { R.distinct("a|" + showVec(v)); runSplitVector(v, maxBlanks); }
        if (v.size() >= maxArgs) return;
        for (auto& s : dom) { v.push_back(s); rec(); v.pop_back(); }
      };
      rec();
    };
    if (th) {
      run(a3, 3, 3);
    } else {
      run(a2, 3, 3);
      run(a3, 2, 3);
    }
    R.sample("a: arguments [<a b>,<>,<'a>] on the wire as <\"a b\"  ''   \"'a\"> must split back to the same three arguments");
  }

  // ---- (b) ---------------------------------------------------------------------------------------
  if (only.empty() || only == "b") {
    size_t maxSeg = th ? 5 : 4;
    uint64_t idx = 0;
    vector<size_t> segs;
    std::function<void()> rec = [&]() {
      if (R.expired()) return;
      if ((idx++ % A.nparts) == static_cast<uint64_t>(A.part)) {
        string uri = "/";
        for (size_t i = 0; i < segs.size(); i++) uri += (i ? "/" : "") + string(SEGS[segs[i]]);
        R.distinct("b|" + uri);
        for (const char* q : QUERIES) httpCase(uri + q, "seg");
      }
      if (segs.size() >= maxSeg) return;
      for (size_t s = 0; s < NSEGS; s++) { segs.push_back(s); rec(); segs.pop_back(); }
    };
    rec();
    // URIs that do not start with a slash (and ones starting with an encoded slash or a name fragment): the file
    // name must not be formed by gluing them to the root path (siblings html-old/, htmlx.js, ... hold OUT markers)
    {
      static const char* PREFIXES[] = {"", "-old/", ".old/", "x", ".", "%2f", "a/", "index"};
      size_t maxSeg2 = th ? 4 : 3;
      vector<size_t> sg;
      std::function<void()> rec2 = [&]() {
        if (R.expired()) return;
        if (!sg.empty() && (idx++ % A.nparts) == static_cast<uint64_t>(A.part)) {
          string tail;
          for (size_t i = 0; i < sg.size(); i++) tail += (i ? "/" : "") + string(SEGS[sg[i]]);
          for (const char* pre : PREFIXES) {
            string uri = string(pre) + tail;
            if (uri.empty() || uri[0] == '/') continue;
            R.distinct("n|" + uri);
            for (const char* q : QUERIES) httpCase(uri + q, "seg");
          }
        }
        if (sg.size() >= maxSeg2) return;
        for (size_t x = 0; x < NSEGS; x++) { sg.push_back(x); rec2(); sg.pop_back(); }
      };
      rec2();
    }
    // raw URIs with the query characters: '?', '&', '=' literal and as escapes (%3f %26 %3d need 3,6,d)
    {
      vector<string> raws2 = stringsOver("/a?&=%3f", th ? 6 : 5, false);
      for (size_t i = 0; i < raws2.size() && !R.expired(); i++) {
        if (static_cast<int>(i % A.nparts) != A.part) continue;
        if (!R.distinct("r|" + raws2[i])) continue;
        httpCase(raws2[i], "raw");
      }
    }
    size_t maxRaw = th ? 7 : 6;
    vector<string> raws = stringsOver("%25ef/.a", maxRaw, false);
    for (size_t i = 0; i < raws.size() && !R.expired(); i++) {
      if (static_cast<int>(i % A.nparts) != A.part) continue;
      R.distinct("r|" + raws[i]);
      httpCase(raws[i], "raw");
    }
    R.sample("b: GET /a/x%2ejs must be decoded to /a/x.js (once: /%252e stays /%2e); GET /%2e%2e/x.js decodes to /../x.js and must not be served from outside the html root");
    rmTree(httpWorld()->tmp);
  }

  // ---- (d) sub-universe with every segmentation, and the 255 byte receive buffer ----------------------
  if (g_delivery && (only.empty() || only == "d")) {
    uint64_t idx = 0;
    // TCP: <=2 arguments of <=2 characters (thorough <=3 of <=2), every encoding, 1..2 blanks, every cut
    {
      vector<string> dom = stringsOver("ab \"'", 2, true);
      size_t maxArgs = th ? 3 : 2;
      vector<string> v;
      std::function<void()> rec = [&]() {
        if (R.expired()) return;
        if (!v.empty() && (idx++ % A.nparts) == static_cast<uint64_t>(A.part)) {
          R.distinct("d|" + showVec(v));
          forEachWire(v, th && v.size() < 3 ? 2 : 1, [&](const string& wire, const string&) { allDeliveries(false, {wire.substr(0, wire.size() - 1)}, v); });
        }
        if (v.size() >= maxArgs) return;
        for (auto& x : dom) { v.push_back(x); rec(); v.pop_back(); }
      };
      rec();
    }
    // HTTP: URIs of <=1 segment (thorough <=2) with and without query, with and without a header line
    {
      size_t maxSeg = th ? 2 : 1;
      vector<size_t> segs;
      std::function<void()> rec = [&]() {
        if (R.expired()) return;
        if ((idx++ % A.nparts) == static_cast<uint64_t>(A.part)) {
          string uri = "/";
          for (size_t i = 0; i < segs.size(); i++) uri += (i ? "/" : "") + string(SEGS[segs[i]]);
          for (const char* q : QUERIES) {
            vector<string> want = httpWant(uri + q);
            if (want.empty()) continue;
            R.distinct("dh|" + uri + q);
            allDeliveries(true, {"GET " + uri + q + " HTTP/1.1", ""}, want);
            if (th) allDeliveries(true, {"GET " + uri + q + " HTTP/1.1", "Host: x", ""}, want);
          }
        }
        if (segs.size() >= maxSeg) return;
        for (size_t x = 0; x < NSEGS; x++) { segs.push_back(x); rec(); segs.pop_back(); }
      };
      rec();
    }
    // the receive buffer: lines / header blocks of every length from 200 to 800 characters (so that every byte
    // of every line end falls on the first, second and third 255 byte boundary), delivered in 255 byte pieces
    for (size_t len = 200; len <= 800 && !R.expired(); len++) {
      if ((idx++ % A.nparts) != static_cast<uint64_t>(A.part)) continue;
      for (const char* eol : {"\n", "\r\n"}) {
        const char* en = eol[0] == '\r' ? "crlf" : "lf";
        // TCP: read -c main aaaa...  with a plain and a quoted last argument
        for (int quoted = 0; quoted < 2; quoted++) {
          string head = "write -c main setp ";
          size_t fill = len - head.size() - (quoted ? 2 : 0);
          string arg = quoted ? string(fill - 4, 'a') + " b c" : string(fill, 'a');
          string line = head + (quoted ? "\"" + arg + "\"" : arg);
          string stream = line + eol;
          R.distinct("buf|" + std::to_string(len) + en + std::to_string(quoted));
          deliveryCase(false, stream, bufferCuts(stream.size(), 255), {"write", "-c", "main", "setp", arg}, en, "buf255");
        }
        // HTTP: GET /aaaa...?q=1 with header
        {
          string tail = string(" HTTP/1.1") + eol + "Host: x" + eol + eol;
          string uri = "/" + string(len - 4 - 1 - 4, 'a') + "?q=1";
          string stream = "GET " + uri + tail;
          deliveryCase(true, stream, bufferCuts(stream.size(), 255), {"GET", uri.substr(0, uri.size() - 4), "q=1"}, en, "buf255");
          // and with the end of the header block (not of the request line) at the boundary
          string uri2 = "/x?q=1";
          string hdr = "X-Fill: " + string(len > 60 ? len - 60 : 1, 'a');
          string stream2 = "GET " + uri2 + " HTTP/1.1" + eol + hdr + eol + eol;
          deliveryCase(true, stream2, bufferCuts(stream2.size(), 255), {"GET", "/x", "q=1"}, en, "buf255");
        }
      }
    }
    // one RequestImpl per CONNECTION: Connection::run keeps the object, fetches the response with waitResponse
    // and goes on adding the next request.  Every ordered sequence of 2 (thorough 3) requests from a small set,
    // LF / CRLF, whole and cut between CR and LF: request k must parse to its own arguments.
    {
      size_t depth = th ? 3 : 2;
      for (int http = 0; http < 2; http++) {
        size_t nset = (http ? HTTPSET : TCPSET).size();
        vector<size_t> seq;
        std::function<void()> rec3 = [&]() {
          if (R.expired()) return;
          if (seq.size() >= 2 && (idx++ % A.nparts) == static_cast<uint64_t>(A.part)) {
            string key;
            for (size_t k = 0; k < seq.size(); k++) key += (k ? "," : "") + std::to_string(seq[k]);
            R.distinct(string("seq|") + (http ? "h" : "t") + key);
            for (int crlf = 0; crlf < 2; crlf++) for (int cut = 0; cut <= crlf; cut++) {
              R.evaluations++; R.tracesValidated++;
              string trace;
              size_t failedAt = 0;
              string rule = runSequence(http != 0, seq, crlf != 0, cut != 0, &trace, &failedAt, false);
              if (!rule.empty()) {
                R.violation(string("C18/connection/") + rule + "/" + (http ? "http" : "tcp") + "/request-" + (failedAt >= 2 ? "3" : "2"),
                            trace + " (one RequestImpl for the whole connection)", string("k=seq;h=") + (http ? "1" : "0") + ";seq=" + key + ";crlf=" + std::to_string(crlf) + ";cut=" + std::to_string(cut));
              }
            }
          }
          if (seq.size() >= depth) return;
          for (size_t x = 0; x < nset; x++) { seq.push_back(x); rec3(); seq.pop_back(); }
        };
        rec3();
      }
    }
    R.sample("d: <read -c \"a b\"\\r\\n> handed to add() as <read -c \"a b\"\\r> + <\\n>, byte by byte, in every cut into <=3 pieces and in 255 byte pieces must give [read,-c,a b] with the last piece");
  }

  // ---- (c) ---------------------------------------------------------------------------------------
  if (only.empty() || only == "c") {
    vector<Tmpl> tmpls = allTemplates();
    vector<string> ids = th ? vector<string>{"a", "ab", "b_1", "x", "ebusd"} : vector<string>{"a", "ab", "b_1"};
    vector<string> fids = ids;
    fids.push_back("");
    for (size_t ti = 0; ti < tmpls.size() && !R.expired(); ti++) {
      if (static_cast<int>(ti % A.nparts) != A.part) continue;
      const Tmpl& t = tmpls[ti];
      for (auto& c : ids) for (auto& n : ids) for (auto& f : fids) for (const char* dir : {"get", "set", "list"}) {
        string rule = checkTopic(t, c, n, f, dir, false);
        if (rule.compare(0, 5, "skip:") == 0) { R.count("c_" + rule.substr(5)); continue; }
        R.evaluations++; R.tracesValidated++;
        R.distinct("c|" + t.text + "|" + c + "|" + n + "|" + f);
        if (!rule.empty()) {
          string ord;
          for (int o : t.order) ord += static_cast<char>('0' + o);
          R.violation("C18/topic/" + rule, "template <" + t.text + "> triple (" + c + "," + n + "," + f + ")",
                      "k=topic;t=" + toHex(t.text) + ";ord=" + ord + ";c=" + c + ";n=" + n + ";f=" + f + ";dir=" + dir);
        }
      }
    }
    R.sample("c: template <ebusd/%circuit/%name/%field>, triple (ab,b_1,a): topic ebusd/ab/b_1/a/set must match back to (ab,b_1,a)");
  }
  R.write(A.out);
  return 0;
}
