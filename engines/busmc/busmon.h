// Reference monitors for the bus properties.  Written from the property statements; they see only
// the event stream of the closed world (writes, delivered symbols, timeouts, reports, notifications).
#ifndef VERIF_BUSMON_H_
#define VERIF_BUSMON_H_

#include <deque>
#include <string>
#include <utility>
#include <vector>
#include "busref.h"
#include "busworld.h"

namespace bw {

using ref::Telegram;

struct VSink {
  std::vector<std::pair<std::string, std::string>> v;  // (signature, detail)
  void add(const std::string& sig, const std::string& detail) {
    for (auto& e : v) if (e.first == sig) return;
    v.push_back(std::make_pair(sig, detail));
  }
};

static inline const char* telKind(const Bytes& m) {
  if (m.size() < 2) return "short";
  if (m[1] == ref::BROADCAST) return "BC";
  return ref::isMaster(m[1]) ? "MM" : "MS";
}

// ---------------------------------------------------------------------------------------------
// C01: passive reception reports exactly the valid telegrams, once, in bus order.
class RecvMonitor : public Monitor {
 public:
  // ownAddr >= 0: ebusd also sends in this scenario; telegrams from its own master address are C02's subject
  // (reported with direction 'sent' when they succeed) and are neither expected nor rejected here
  explicit RecvMonitor(VSink* s, int ownAddr = -1) : sink(s), own(ownAddr) {}
  VSink* sink;
  int own;
  ref::WireParser p;
  std::deque<Telegram> expected;
  bool failed = false;
  bool corrupted = false;  // something other than a clean telegram was seen before (for the signature only)
  int reportsSeen = 0;

  void onDeliver(uint8_t v, int, bool) override {
    Telegram t;
    if (p.symbol(v, &t) && !(own >= 0 && !t.master.empty() && t.master[0] == (uint8_t)own)) expected.push_back(t);
  }
  void onTimeout(int) override { p.timeout(); }
  void onIoError(bool) override { p.timeout(); }
  void onReport(int dir, const Bytes& m, const Bytes& s) override {
    if (failed) return;
    reportsSeen++;
    Telegram got{m, s};
    if (own >= 0 && dir == 1 && !m.empty() && m[0] == (uint8_t)own) return;  // own request reported as sent
    if (dir != 0) {
      failed = true;
      sink->add("C01/wrong-direction", "telegram " + got.str() + " reported with direction " + std::to_string(dir) + " although nothing was sent or answered");
      return;
    }
    if (expected.empty()) {
      if (p.dontCare) return;  // NN beyond 16: not fixed by the statement
      failed = true;
      std::string why = "other";
      if (m.size() >= 2 && !ref::isMaster(m[0])) why = "non-master-source";
      else if (m.size() >= 2 && m[0] == m[1]) why = "self-destination";
      sink->add("C01/spurious-report/" + why, "reported " + got.str() + " but the wire carried no such complete valid telegram");
      return;
    }
    if (!(expected.front() == got)) {
      failed = true;
      sink->add(std::string("C01/wrong-content/") + telKind(expected.front().master), "reported " + got.str() + " instead of " + expected.front().str());
      return;
    }
    expected.pop_front();
  }
  void onQuiescent(bool) override {
    if (failed || expected.empty()) return;
    failed = true;
    sink->add(std::string("C01/missing-report/") + telKind(expected.front().master), "valid telegram " + expected.front().str() + " on the wire was not reported");
  }
  void onEnd() override { onQuiescent(false); }
  void fingerprint(std::string* o) const override {
    p.fingerprint(o);
    o->push_back((char)(failed | (expected.size() << 1)));
  }
};


// ---------------------------------------------------------------------------------------------
// C02 + C03: wire format / truthful result of active requests, and entitlement of every write.
// Rule families are enabled separately (c02 / c03); signatures are prefixed accordingly.
class ActiveMonitor : public Monitor {
 public:
  ActiveMonitor(VSink* s, const Scenario& scn, bool c02rules, bool c03rules)
      : sink(s), sc(scn), c02(c02rules), c03(c03rules), pending(scn.reqs.size(), 0) {}
  VSink* sink;
  const Scenario& sc;
  bool c02, c03;
  enum Ph { NONE, ARB, ARMED, AUTOSYN, SENDING, WAIT_ACK, RESP, SEND_ACK, ACK_ECHO, SEND_SYN, SYN_ECHO, FAILED_CLOSING, DISTURBED };
  Ph autosynFrom = NONE;
  bool armedSyn = false;       // a SYN was seen since arming: the adapter is arbitrating now
  bool armedTimeout = false;   // a receive timeout passed while the adapter was armed: a win reported after it is late
  bool lossWinnerMaster = false, lossTraffic = false;
  Ph ph = NONE;
  std::vector<int> pending;   // per request: in flight
  std::vector<int> cands;     // requests that may be the one being sent
  uint8_t arbAddr = 0;
  size_t wpos = 0;            // symbols of the current master transmission written so far
  bool repeat = false;        // second transmission of the master part (starts with QQ)
  bool echoPending = false;
  uint8_t lastW = 0;
  int attemptS = 1;
  // response parsing
  Bytes resp;
  uint8_t rcrc = 0;
  bool resc = false, rcrcPos = false, rGood = false;
  bool valid = false, notified = false, reported = false;
  int doneReq = -1;
  // entitlement
  bool silentUntilSyn = false;
  int synsSinceLoss = -1;
  bool loneSyn = false;
  int silenceMs = 0;
  bool generator = false;
  bool failed = false;

  void fail(const std::string& sig, const std::string& detail) { if (!failed) sink->add(sig, detail); failed = true; }
  void v2(const std::string& rule, const std::string& d) { if (c02) fail("C02/" + rule, d); }
  void v3(const std::string& rule, const std::string& d) { if (c03) fail("C03/" + rule, d); }

  Bytes expectSeq(int r) const {
    Bytes m = sc.reqs[r].master;
    Bytes w = ref::wirePart(m);
    if (!repeat) w.erase(w.begin());  // QQ was the arbitration symbol
    return w;
  }
  static std::string hx(uint8_t v) { char b[4]; snprintf(b, sizeof(b), "%02x", v); return b; }
  std::string phName() const {
    static const char* n[] = {"idle", "arbitration-echo", "armed", "autosyn-echo", "sending", "wait-ack", "response", "send-ack", "ack-echo", "send-syn", "syn-echo", "failed-closing", "disturbed"};
    return n[ph];
  }
  void exchangeFailed(bool silent) {
    ph = NONE; valid = false; cands.clear(); echoPending = false;
    if (silent) silentUntilSyn = true;
  }
  uint8_t dstOf() const { return cands.empty() ? 0 : sc.reqs[cands[0]].master[1]; }

  void onEnqueue(int r) override { pending[r] = 1; }

  void onArbStart(uint8_t addr) override {  // enhanced START frame
    if (failed) return;
    if (addr == ref::SYN) { if (ph == ARMED) ph = NONE; return; }
    if (sc.readOnly) { v3("readonly-write", "START(" + hx(addr) + ") in read-only mode"); return; }
    std::vector<int> c;
    for (size_t i = 0; i < pending.size(); i++) if (pending[i] && sc.reqs[i].master[0] == addr) c.push_back((int)i);
    if (c.empty()) { v3("arbitration-without-request", "START(" + hx(addr) + ") although no request with that source is pending"); return; }
    if (ph != NONE && ph != ARMED && ph != DISTURBED) { v3("arbitration-during-exchange/" + phName(), "START(" + hx(addr) + ") while " + phName()); return; }
    if (synsSinceLoss >= 0 && synsSinceLoss < 1) v3(std::string("arbitration-too-early-after-loss/enh/") + (lossWinnerMaster ? "winner-master/" : "winner-other/") + (lossTraffic ? "traffic" : "address-only"), "START issued before any SYN after the lost arbitration");
    ph = ARMED; arbAddr = addr; cands = c; armedTimeout = false; armedSyn = false;
  }

  void onWrite(uint8_t v) override {
    if (failed) return;
    if (sc.readOnly) { v3("readonly-write", "symbol " + hx(v) + " written in read-only mode"); return; }
    if ((ph == NONE || ph == ARMED) && v == ref::SYN && sc.genSyn) {
      int need = generator ? 40 : (int)(10 * ref::masterNumber(sc.own) + 51);
      if (silenceMs < need) v3("autosyn-early", "AUTO-SYN after only " + std::to_string(silenceMs) + " ms of silence (interval " + std::to_string(need) + ")");
      autosynFrom = ph; ph = AUTOSYN; echoPending = true; lastW = v;
      return;
    }
    switch (ph) {
      case DISTURBED: return;  // a foreign symbol interrupted the own telegram: not fixed by the statement until the next SYN
      case NONE: {
        std::vector<int> c;
        for (size_t i = 0; i < pending.size(); i++) if (pending[i] && sc.reqs[i].master[0] == v) c.push_back((int)i);
        if (!sc.enhanced && loneSyn && !c.empty()) {
          if (synsSinceLoss >= 0 && synsSinceLoss < 2) v3(std::string("arbitration-too-early-after-loss/plain/") + (lossWinnerMaster ? "winner-master/" : "winner-other/") + (lossTraffic ? "traffic" : "address-only"), "address " + hx(v) + " sent at the first SYN after a lost arbitration");
          ph = ARB; arbAddr = v; cands = c; echoPending = true; lastW = v;
          return;
        }
        std::string why = silentUntilSyn ? "after-error-before-syn" : (loneSyn ? (c.empty() ? "after-syn-without-request" : "other") : "not-after-syn");
        v3("unentitled-write/" + why, "symbol " + hx(v) + " written while idle (" + why + ")");
        return;
      }
      case SENDING: {
        if (echoPending) { v3("write-before-echo", "symbol " + hx(v) + " written before the previous echo was checked"); return; }
        std::vector<int> keep;
        for (int r : cands) { Bytes e = expectSeq(r); if (wpos < e.size() && e[wpos] == v) keep.push_back(r); }
        if (keep.empty()) {
          Bytes e = expectSeq(cands[0]);
          std::string d = "symbol #" + std::to_string(wpos) + " of the transmission is " + hx(v) + ", expected " + (wpos < e.size() ? hx(e[wpos]) : std::string("nothing")) + " (request " + ref::hex(sc.reqs[cands[0]].master) + ")";
          v2(std::string("wrong-symbol/") + (repeat ? "repeat" : "first") + (wpos + 1 >= e.size() ? "/crc" : "/data"), d);
          v3("unentitled-write/not-next-symbol", d);
          return;
        }
        cands = keep; wpos++; echoPending = true; lastW = v;
        return;
      }
      case SEND_ACK: {
        if (rGood) {
          if (v != ref::ACK) { v2("good-response-not-acked", "response with correct CRC answered with " + hx(v)); v3("unentitled-write/wrong-ack", "wrote " + hx(v) + " instead of ACK"); return; }
        } else {
          if (v == ref::ACK) { v2("bad-crc-acked", "response with wrong CRC was ACKed"); return; }
          if (attemptS == 1 && v != ref::NAK) { v2("bad-crc-not-naked", "response with wrong CRC answered with " + hx(v) + " instead of NAK"); v3("unentitled-write/wrong-ack", "wrote " + hx(v)); return; }
          if (attemptS == 2 && v != ref::NAK && v != ref::SYN) { v3("unentitled-write/wrong-ack", "wrote " + hx(v) + " after the second bad response"); return; }
          if (v == ref::SYN) { ph = SYN_ECHO; echoPending = true; lastW = v; return; }
        }
        ph = ACK_ECHO; echoPending = true; lastW = v;
        return;
      }
      case SEND_SYN:
      case FAILED_CLOSING:
        if (v != ref::SYN) { v2("no-closing-syn", "wrote " + hx(v) + " instead of the closing SYN"); v3("unentitled-write/after-exchange", "wrote " + hx(v) + " after the exchange"); return; }
        ph = SYN_ECHO; echoPending = true; lastW = v;
        return;
      default:
        v3("unentitled-write/while-" + phName(), "symbol " + hx(v) + " written while " + phName());
        v2("write-while-" + phName(), "symbol " + hx(v) + " written while " + phName());
        return;
    }
  }

  void respReset() { resp.clear(); rcrc = 0; resc = false; rcrcPos = false; rGood = false; }

  void onDeliver(uint8_t v, int kind, bool more) override {
    if (failed) return;
    silenceMs = 0;
    bool syn = (v == ref::SYN && kind == 0);
    Ph was = ph;
    switch (ph) {
      case NONE:
        break;
      case ARMED:
        if (kind == 1 && v == arbAddr) {
          if (cands.empty()) { v3("arbitration-won-without-request", "the adapter won an arbitration for " + hx(v) + " that was not cancelled although its request is gone"); ph = NONE; break; }
          if (armedTimeout) { ph = DISTURBED; armedTimeout = false; break; }  // the win is reported late (after a timeout): continuing is not fixed by the statement
          ph = SENDING; wpos = 0; repeat = false; echoPending = false; valid = false; notified = false; reported = false;
        } else if (kind == 2 || kind == 1) { exchangeFailed(true); synsSinceLoss = v == ref::SYN ? -1 : 0; lossWinnerMaster = ref::isMaster(v); lossTraffic = false; }
        break;
      case ARB:
        echoPending = false;
        if (v == arbAddr && kind != 2) {
          if (cands.empty()) { ph = NONE; break; }
          ph = SENDING; wpos = 0; repeat = false; valid = false; notified = false; reported = false;
        }
        else { exchangeFailed(!syn); synsSinceLoss = syn ? -1 : 0; lossWinnerMaster = ref::isMaster(v); lossTraffic = false; }  // a SYN in the arbitration slot is no collision: lock rule not applicable
        break;
      case AUTOSYN:
        echoPending = false;
        if (syn) generator = true;
        ph = autosynFrom;
        break;
      case SENDING:
        if (echoPending && v == lastW && kind == 0) {
          echoPending = false;
          Bytes e = expectSeq(cands[0]);
          if (wpos >= e.size()) {
            if (dstOf() == ref::BROADCAST) { valid = true; ph = SEND_SYN; }
            else ph = WAIT_ACK;
          }
        } else if (!echoPending) {
          exchangeFailed(false); ph = DISTURBED;  // foreign symbol while it was ebusd's turn
        } else {
          exchangeFailed(true);
        }
        break;
      case DISTURBED:
        break;
      case WAIT_ACK:
        if (v == ref::ACK && kind == 0) {
          if (ref::isMaster(dstOf())) { valid = true; ph = SEND_SYN; }
          else { ph = RESP; attemptS = 1; respReset(); }
        } else if (v == ref::NAK && kind == 0 && !repeat) {
          ph = SENDING; repeat = true; wpos = 0; echoPending = false;
        } else {
          exchangeFailed(!syn);
        }
        break;
      case RESP: {
        if (syn) { exchangeFailed(false); break; }
        uint8_t u = v;
        if (resc) {
          if (v > 1) { exchangeFailed(true); break; }
          u = v == 0 ? ref::ESC : ref::SYN;
          if (!rcrcPos) rcrc = ref::crcStep(rcrc, v);
          resc = false;
        } else if (v == ref::ESC) {
          resc = true;
          if (!rcrcPos) rcrc = ref::crcStep(rcrc, v);
          break;
        } else if (!rcrcPos) {
          rcrc = ref::crcStep(rcrc, v);
        }
        if (rcrcPos) { rGood = (u == rcrc); ph = SEND_ACK; break; }
        resp.push_back(u);
        if (resp.size() == (size_t)resp[0] + 1) rcrcPos = true;
        break;
      }
      case SEND_ACK:   // ebusd should have written its ACK/NAK instead of reading on
      case SEND_SYN:
        // a further symbol followed on the bus before ebusd could transmit (it was already buffered): what
        // ebusd does with the exchange now is not fixed by the statement until the next SYN
        exchangeFailed(false);
        if (!syn) ph = DISTURBED;
        break;
      case ACK_ECHO:
        echoPending = false;
        if (v == lastW && kind == 0) {
          if (lastW == ref::ACK) { valid = true; ph = SEND_SYN; }
          else if (attemptS == 1) { ph = RESP; attemptS = 2; respReset(); }
          else ph = FAILED_CLOSING;
        } else {
          exchangeFailed(true);
        }
        break;
      case SYN_ECHO:
        echoPending = false;
        ph = NONE; cands.clear();
        break;
      case FAILED_CLOSING:
        exchangeFailed(!syn);
        break;
    }
    if (syn && ph == DISTURBED) ph = NONE;
    if (syn && ph == ARMED) armedSyn = true;
    if (synsSinceLoss >= 0 && !syn && was != ARB && was != ARMED) lossTraffic = true;
    if (syn) {
      silentUntilSyn = false;
      if (synsSinceLoss >= 0 && !(was == ARB)) synsSinceLoss++;
      if (synsSinceLoss > 8) synsSinceLoss = -1;
    }
    loneSyn = syn && !more && ph == NONE;
    (void)was;
  }

  void onTimeout(int ms) override {
    if (failed) return;
    silenceMs += ms;
    if (silenceMs > 100000) silenceMs = 100000;
    loneSyn = false;
    if (ph == ARMED) { if (armedSyn) armedTimeout = true; return; }  // the adapter keeps the request armed
    if (ph == DISTURBED) { ph = NONE; return; }
    if (ph != NONE) exchangeFailed(true);
  }
  void onIoError(bool) override {
    if (failed) return;
    loneSyn = false;
    exchangeFailed(true);
  }
  void onReopen() override { ph = NONE; cands.clear(); loneSyn = false; }

  void onReport(int dir, const Bytes& m, const Bytes& s) override {
    if (failed || dir != 1) return;
    if (ph == DISTURBED) return;  // outcome not fixed by the statement
    if (!valid || cands.empty()) { v2("false-sent-report", "reported " + ref::hex(m) + " as sent although the exchange was not valid (" + phName() + ")"); return; }
    bool ok = false;
    for (int r : cands) if (sc.reqs[r].master == m) ok = true;
    if (!ok) { v2("sent-report-content", "reported sent message " + ref::hex(m) + " differs from the request"); return; }
    bool slaveDst = dstOf() != ref::BROADCAST && !ref::isMaster(dstOf());
    if (slaveDst && s != resp) { v2("sent-report-content", "reported response " + ref::hex(s) + " instead of " + ref::hex(resp)); return; }
    reported = true;
  }

  void onNotify(int r, int result, const Bytes& slave, bool restart) override {
    if (!restart) pending[r] = 0;
    if (failed || ph == DISTURBED) return;
    bool mine = false;
    for (int c : cands) if (c == r) mine = true;
    bool inExchange = mine && ph != NONE && ph != ARB && ph != ARMED;
    if (result == 0) {
      if (!(inExchange && valid)) { v2(std::string("false-success/") + (inExchange ? phName() : "not-in-exchange"), "request " + ref::hex(sc.reqs[r].master) + " completed successfully although the exchange was not valid"); return; }
      bool slaveDst = dstOf() != ref::BROADCAST && !ref::isMaster(dstOf());
      if (slaveDst && slave != resp) { v2("wrong-response-data", "request completed with response " + ref::hex(slave) + " instead of " + ref::hex(resp)); return; }
      if (!reported) { v2("missing-sent-report", "successful request " + ref::hex(sc.reqs[r].master) + " was not reported as sent message"); return; }
      notified = true;
      cands.assign(1, r);
    } else if (inExchange && valid) {
      v2("false-error", "request " + ref::hex(sc.reqs[r].master) + " completed with error " + std::to_string(result) + " although the exchange was valid");
    }
    if (mine && (ph == ARB || ph == ARMED) && !restart) {
      // a candidate is gone: a later win may have nothing to send
      std::vector<int> keep;
      for (int c : cands) if (c != r) keep.push_back(c);
      cands = keep;
    }
  }

  void onQuiescent(bool buffered) override {
    if (failed) return;
    if (buffered) return;  // further symbols were already on the bus: ebusd had no slot to transmit in
    if (ph == SEND_SYN && valid && !notified) { v2("missing-success", "valid exchange for " + ref::hex(sc.reqs[cands[0]].master) + " was not completed successfully"); return; }
    if (ph == SEND_SYN) { v2("no-closing-syn", "ebusd listens instead of sending the closing SYN"); exchangeFailed(false); return; }
    if (ph == SEND_ACK) {
      if (rGood) v2("good-response-not-acked", "ebusd listens instead of acknowledging a correct response");
      else if (attemptS == 1) v2("bad-crc-not-naked/silent", "ebusd listens instead of sending NAK for a response with wrong CRC (request " + ref::hex(sc.reqs[cands[0]].master) + ")");
      exchangeFailed(false);
      return;
    }
    if (ph == SENDING && !echoPending) {
      // ebusd stopped transmitting in the middle of its telegram
      v2("transmission-stopped", "ebusd listens instead of sending symbol #" + std::to_string(wpos));
      exchangeFailed(false);
    }
    if (ph == FAILED_CLOSING) exchangeFailed(false);
  }

  void fingerprint(std::string* o) const override {
    o->push_back((char)ph); o->push_back((char)(wpos));
    o->push_back((char)(repeat | (echoPending << 1) | (valid << 2) | (notified << 3) | (reported << 4) | (silentUntilSyn << 5) | (loneSyn << 6) | (generator << 7)));
    o->push_back((char)(failed | (resc << 1) | (rcrcPos << 2) | (rGood << 3) | (attemptS << 4)));
    o->push_back((char)(autosynFrom | (lossWinnerMaster << 4) | (lossTraffic << 5) | (armedTimeout << 6) | (armedSyn << 7)));
    o->push_back((char)lastW); o->push_back((char)arbAddr); o->push_back((char)(synsSinceLoss + 1)); o->push_back((char)rcrc);
    // the accumulated silence only matters for the AUTO-SYN rule; kept exact up to beyond the longest interval
    int sm = sc.genSyn ? (silenceMs > 400 ? 400 : silenceMs) : 0;
    o->push_back((char)(sm & 0xff)); o->push_back((char)(sm >> 8));
    o->push_back((char)resp.size()); o->append((const char*)resp.data(), resp.size());
    for (int p : pending) o->push_back((char)p);
    o->push_back((char)cands.size()); for (int c : cands) o->push_back((char)c);
  }
};


// ---------------------------------------------------------------------------------------------
// C15: answer mode responds exactly to the telegrams it was configured for.
class AnswerMonitor : public Monitor {
 public:
  AnswerMonitor(VSink* s, const Scenario& scn, const std::string& pfx = "C15/", bool entitlementOnlyMode = false)
      : sink(s), sc(scn), prefix(pfx), entitlementOnly(entitlementOnlyMode) {}
  VSink* sink;
  const Scenario& sc;
  std::string prefix;
  bool entitlementOnly;   // C03 (c): only judge that ebusd writes nothing it is not entitled to
  enum Ph { WAIT_SYN, IDLE, M, EXPECT_ACK, ACK_ECHO, RESP_SEND, RESP_ECHO, RESP_ACK, PASSIVE, OWN };
  Ph ph = WAIT_SYN;  // OWN: an own request of ebusd is on the bus (scenarios with a history of own exchanges): C02's subject,
                     // nothing is judged here until the SYN that ends it
  Bytes part;
  uint8_t crc = 0;
  bool esc = false, crcPos = false, good = false;
  int attemptM = 1, attemptS = 1;
  std::vector<int> cands;     // indices into sc.answers
  uint8_t expectAck = 0;      // ACK or NAK
  bool ackMust = false;
  uint8_t lastW = 0;
  size_t wpos = 0;
  bool pendingReport = false;
  Bytes reportMaster;
  bool failed = false;

  void fail(const std::string& sig, const std::string& detail) {
    if (entitlementOnly && sig.compare(0, 16, "unexpected-write") != 0 && sig.compare(0, 17, "wrong-acknowledge") != 0 && sig.compare(0, 21, "wrong-response-symbol") != 0) return;
    if (!failed && sink) sink->add(prefix + sig, detail);
    failed = true;
  }
  static std::string hx(uint8_t v) { char b[4]; snprintf(b, sizeof(b), "%02x", v); return b; }
  const char* phName() const { static const char* n[] = {"wait-syn", "idle", "receiving", "expect-ack", "ack-echo", "response-send", "response-echo", "response-ack", "passive", "own-exchange"}; return n[ph]; }
  void resetPart() { part.clear(); crc = 0; esc = false; crcPos = false; good = false; }

  // reference answer table lookup (from the statement): all registered answers matching with the longest ID
  std::vector<int> lookup(const Bytes& m) const {
    std::vector<int> best;
    size_t bestLen = 0;
    if (!sc.answer || sc.readOnly) return best;
    size_t nn = m[4];
    for (size_t i = 0; i < sc.answers.size(); i++) {
      const AnswerSpec& a = sc.answers[i];
      if (a.dst != m[1] || a.pb != m[2] || a.sb != m[3]) continue;
      if (a.src >= 0 && (uint8_t)a.src != m[0]) continue;
      if (a.id.size() > nn) continue;
      bool eq = true;
      for (size_t j = 0; j < a.id.size(); j++) if (m[5 + j] != a.id[j]) eq = false;
      if (!eq) continue;
      if (ref::isMaster(a.dst) && a.id.size() + (a.answer.empty() ? 0 : a.answer[0]) != nn) continue;
      if (best.empty() || a.id.size() > bestLen) { best.clear(); bestLen = a.id.size(); }
      if (a.id.size() == bestLen) best.push_back((int)i);
    }
    return best;
  }
  bool dstRegistered(uint8_t dst) const {
    if (!sc.answer || sc.readOnly) return false;
    for (auto& a : sc.answers) if (a.dst == dst) return true;
    return false;
  }

  void onWrite(uint8_t v) override {
    if (failed || dontCare) return;
    switch (ph) {
      case EXPECT_ACK:
        if (v != expectAck) { fail(std::string("wrong-acknowledge/") + (expectAck == ref::ACK ? "expected-ack" : "expected-nak"), "wrote " + hx(v) + " after telegram " + ref::hex(part) + " (CRC " + (good ? "good" : "bad") + ")"); return; }
        lastW = v; ph = ACK_ECHO;
        return;
      case RESP_SEND: {
        std::vector<int> keep;
        for (int c : cands) { Bytes w = ref::wirePart(sc.answers[c].answer); if (wpos < w.size() && w[wpos] == v) keep.push_back(c); }
        if (keep.empty()) {
          Bytes w = ref::wirePart(sc.answers[cands[0]].answer);
          fail(std::string("wrong-response-symbol/") + (wpos + 1 >= w.size() ? "crc" : "data"), "response symbol #" + std::to_string(wpos) + " is " + hx(v) + ", expected " + (wpos < w.size() ? hx(w[wpos]) : std::string("nothing")) + " for telegram " + ref::hex(part));
          return;
        }
        cands = keep; lastW = v; ph = RESP_ECHO;
        return;
      }
      case OWN:
        return;
      case IDLE:
        // the arbitration address of an own request directly behind a SYN (only in scenarios that queue own requests)
        if (v == sc.own && !sc.reqs.empty() && !sc.readOnly) { ph = OWN; return; }
        fail(std::string("unexpected-write/") + phName(), "symbol " + hx(v) + " written while " + phName());
        return;
      default:
        fail(std::string("unexpected-write/") + phName(), "symbol " + hx(v) + " written while " + phName() + (part.empty() ? "" : " (telegram so far " + ref::hex(part) + ")"));
        return;
    }
  }

  void onDeliver(uint8_t v, int kind, bool) override {
    if (failed) return;
    bool syn = v == ref::SYN && kind == 0;
    if (ph == OWN) {
      if (syn) { ph = IDLE; resetPart(); attemptM = 1; dontCare = false; }
      return;
    }
    if (kind == 1 && !sc.reqs.empty()) { ph = OWN; return; }  // enhanced: the adapter reports the won arbitration of an own request
    if ((ph == ACK_ECHO || ph == RESP_ECHO) && v != lastW) {
      ph = PASSIVE;
      if (syn) { ph = IDLE; resetPart(); attemptM = 1; dontCare = false; }
      return;
    }
    if (ph == ACK_ECHO) {
      if (lastW == ref::NAK) { ph = M; attemptM = 2; resetPart(); return; }
      if (ref::isMaster(part[1])) { pendingReport = true; reportMaster = part; ph = PASSIVE; return; }
      ph = RESP_SEND; wpos = 0; attemptS = 1;
      return;
    }
    if (ph == RESP_ECHO) {
      wpos++;
      Bytes w = ref::wirePart(sc.answers[cands[0]].answer);
      ph = wpos >= w.size() ? RESP_ACK : RESP_SEND;
      return;
    }
    if (syn) { ph = IDLE; resetPart(); attemptM = 1; dontCare = false; return; }
    switch (ph) {
      case WAIT_SYN: case PASSIVE: return;
      case IDLE:
        if (!ref::isMaster(v)) { ph = PASSIVE; return; }
        ph = M; attemptM = 1; resetPart();
        collect(v);
        return;
      case M: collect(v); return;
      case EXPECT_ACK:  // someone else acknowledged / talked before ebusd did
        ph = PASSIVE; return;
      case RESP_SEND:
        ph = PASSIVE; return;
      case RESP_ACK:
        if (v == ref::ACK) { pendingReport = true; reportMaster = part; ph = PASSIVE; return; }
        if (v == ref::NAK && attemptS == 1) { attemptS = 2; wpos = 0; ph = RESP_SEND; return; }
        ph = PASSIVE; return;
      default: return;
    }
  }
  void collect(uint8_t v) {
    if (part.empty() && !esc && !crcPos && !ref::isMaster(v)) { ph = PASSIVE; return; }
    uint8_t u = v;
    if (esc) {
      if (v > 1) { ph = PASSIVE; return; }
      u = v == 0 ? ref::ESC : ref::SYN;
      if (!crcPos) crc = ref::crcStep(crc, v);
      esc = false;
    } else if (v == ref::ESC) {
      esc = true;
      if (!crcPos) crc = ref::crcStep(crc, v);
      return;
    } else if (!crcPos) {
      crc = ref::crcStep(crc, v);
    }
    if (crcPos) {
      good = (u == crc);
      uint8_t zz = part[1];
      if (zz == ref::BROADCAST) { ph = PASSIVE; return; }
      if (zz == part[0] && good) { ph = PASSIVE; return; }  // self-addressed telegram: invalid (with a wrong CRC the source byte itself may be the corrupted one: NAK rules below apply)
      if (part[4] > 16) { ph = WAIT_SYN; dontCare = true; return; }
      cands = lookup(part);
      if (good) {
        if (cands.empty()) { ph = PASSIVE; return; }
        expectAck = ref::ACK; ackMust = true; ph = EXPECT_ACK;
        return;
      }
      if (attemptM == 2) { ph = PASSIVE; return; }
      if (!cands.empty()) { expectAck = ref::NAK; ackMust = true; ph = EXPECT_ACK; return; }
      if (dstRegistered(zz)) { expectAck = ref::NAK; ackMust = false; ph = EXPECT_ACK; return; }
      ph = PASSIVE;
      return;
    }
    part.push_back(u);
    if (part.size() == 2 && !ref::isValidAddr(u)) { ph = PASSIVE; return; }
    if (part.size() >= 5 && part.size() == 5u + part[4]) crcPos = true;
  }
  bool dontCare = false;

  void onTimeout(int) override { if (failed) return; quiesce(); ph = WAIT_SYN; }
  void onIoError(bool) override { ph = WAIT_SYN; }
  void quiesce() {
    if (ph == EXPECT_ACK) {
      if (ackMust) fail(expectAck == ref::ACK ? "no-acknowledge" : "bad-crc-not-naked", std::string("ebusd stays passive instead of sending ") + (expectAck == ref::ACK ? "ACK" : "NAK") + " for telegram " + ref::hex(part) + " matching a registered answer");
      ph = PASSIVE;
    } else if (ph == RESP_SEND) {
      fail("response-stopped", "ebusd stays passive instead of sending response symbol #" + std::to_string(wpos) + " for telegram " + ref::hex(part));
    }
    if (pendingReport) fail("missing-answer-report", "completed answer to " + ref::hex(reportMaster) + " was not reported");
  }
  void onQuiescent(bool buffered) override {
    if (failed) return;
    if (buffered) {
      // further symbols already followed on the bus: the slot for acknowledging has passed
      if (ph == EXPECT_ACK || ph == RESP_SEND) ph = PASSIVE;
      return;
    }
    quiesce();
  }
  void onEnd() override { if (!failed && pendingReport) fail("missing-answer-report", "completed answer to " + ref::hex(reportMaster) + " was not reported"); }
  void onReport(int dir, const Bytes& m, const Bytes& s) override {
    if (failed || dir != 2) return;
    if (dontCare) return;
    if (!pendingReport) { fail("false-answer-report", "reported " + ref::hex(m) + " as answered although no answer exchange completed"); return; }
    pendingReport = false;
    if (m != reportMaster) { fail("answer-report-content", "reported " + ref::hex(m) + " instead of " + ref::hex(reportMaster)); return; }
    if (!ref::isMaster(m[1])) {
      bool ok = false;
      for (int c : cands) if (sc.answers[c].answer == s) ok = true;
      if (!ok) fail("answer-report-content", "reported response " + ref::hex(s) + " is not the registered answer");
    }
  }
  void fingerprint(std::string* o) const override {
    o->push_back((char)ph); o->push_back((char)(esc | (crcPos << 1) | (good << 2) | (ackMust << 3) | (pendingReport << 4) | (failed << 5) | (dontCare << 6)));
    o->push_back((char)crc); o->push_back((char)(attemptM | (attemptS << 2))); o->push_back((char)expectAck); o->push_back((char)lastW); o->push_back((char)wpos);
    o->push_back((char)part.size()); o->append((const char*)part.data(), part.size());
    o->push_back((char)cands.size()); for (int c : cands) o->push_back((char)c);
  }
};


// ---------------------------------------------------------------------------------------------
// C04 (fault sequences): every request handed over completes exactly once (or is re-queued on a
// restart), lands where its waiter can find it, and is not referenced by the handler afterwards.
class CompletionMonitor : public Monitor {
 public:
  CompletionMonitor(VSink* s, World* world, const char* pfx = "C04/") : sink(s), w(world), prefix(pfx), inflight(world->sc.reqs.size(), 0), completions(world->sc.reqs.size(), 0) {}
  VSink* sink;
  World* w;
  std::string prefix;  // C02 uses the same oracle for its clause 'otherwise it completes with an error'

  std::vector<int> inflight, completions;
  std::vector<int> devAtEnqueue;   // adverse environment events seen when the request was handed over
  bool failed = false;
  void fail(const std::string& sig, const std::string& d) { if (!failed) sink->add(prefix + sig, d); failed = true; }
  std::string rq(int r) const { return "request #" + std::to_string(r) + " (" + ref::hex(w->sc.reqs[r].master) + ", " + (w->sc.reqs[r].kind == 2 ? "real PollRequest" : w->sc.reqs[r].kind == 1 ? "self-deleting" : "waited") + (w->sc.reqs[r].restarts ? ", restarting" : "") + ")"; }
  void onEnqueue(int r) override {
    inflight[r]++;
    if (devAtEnqueue.size() <= (size_t)r) devAtEnqueue.resize(r + 1, 0);
    // handed over while the device is down (reopen failed): never 'undisturbed'
    devAtEnqueue[r] = (w->tr != nullptr && w->tr->m_valid) ? w->devCount : -1;
  }
  bool undisturbed(int r) const { return (size_t)r < devAtEnqueue.size() && devAtEnqueue[r] == w->devCount; }
  void onNotify(int r, int result, const Bytes&, bool restart) override {
    if (failed) return;
    if (inflight[r] <= 0) { fail("completed-twice", rq(r) + " was notified (result " + std::to_string(result) + ") although it was not in flight"); return; }
    if (result == 1 || result == 2) { fail("indefinite-result", rq(r) + " completed with the non-result " + std::to_string(result)); return; }
    // 'completes successfully iff the exchange was valid': with an environment that did nothing adverse since the
    // request was handed over (conformant participants, no fault, no contender, no silence) the exchange is valid
    if (result != 0 && undisturbed(r) && !w->sc.reqs[r].failsByScript && !w->sc.readOnly && !w->sc.unbounded) {
      fail("failed-without-cause", rq(r) + " completed with error " + std::to_string(result) + " although the environment behaved conformantly since it was handed over");
      return;
    }
    if (!restart) { inflight[r]--; completions[r]++; }
  }
  bool inQueue(Queue<BusRequest*>& q, BusRequest* r, int* count = nullptr) {
    int n = 0;
    pthread_mutex_lock(&q.m_mutex);
    for (BusRequest* x : q.m_queue) if (x == r) n++;
    pthread_mutex_unlock(&q.m_mutex);
    if (count) *count = n;
    return n > 0;
  }
  void onQuiescent(bool) override {
    if (failed || w->h == nullptr) return;
    for (size_t i = 0; i < inflight.size(); i++) {
      BusRequest* r = w->reqObj[i];
      bool waited = w->sc.reqs[i].kind == 0;
      if (w->reqState[i] == 2) {  // completed
        if (r != nullptr) {
          if (w->h->m_currentRequest == r) fail("touched-after-completion/current", rq((int)i) + " is still the handler's current request after completion");
          if (inQueue(w->h->m_nextRequests, r)) fail("touched-after-completion/queued", rq((int)i) + " is in the send queue after completion");
          int n = 0;
          inQueue(w->h->m_finishedRequests, r, &n);
          if (waited && !collected(i) && n != 1) fail("waiter-not-released", rq((int)i) + " completed but is " + std::to_string(n) + " times in the finished queue");
          if (!waited && n != 0) fail("self-deleting-in-finished-queue", rq((int)i) + " was put into the finished queue");
        }
      } else if (w->reqState[i] == 1 && r != nullptr) {
        if (inQueue(w->h->m_finishedRequests, r)) fail("released-before-completion", rq((int)i) + " is in the finished queue without having been notified");
        int n = 0;
        inQueue(w->h->m_nextRequests, r, &n);
        int cur = w->h->m_currentRequest == r ? 1 : 0;
        if (n + cur != 1) fail(n + cur == 0 ? "lost-request" : "duplicated-request", rq((int)i) + " is in flight but referenced " + std::to_string(n) + " times by the send queue and " + std::to_string(cur) + " times as current request");
      }
    }
  }
  bool collected(size_t i) { return i < w->collected.size() && w->collected[i]; }
  void onEnd() override {
    if (failed) return;
    onQuiescent(false);
    if (!w->sc.drainAtEnd) return;
    for (size_t i = 0; i < inflight.size(); i++) {
      if (inflight[i] > 0) { fail("never-completed", rq((int)i) + " was never completed although the signal was lost at the end"); return; }
    }
  }
  void onLivelock() override {
    if (failed) return;
    for (size_t i = 0; i < inflight.size(); i++) {
      if (inflight[i] > 0) { fail("never-completed/livelock", rq((int)i) + " is still in flight while the system loops through the same states forever (e.g. endless restart)"); return; }
    }
  }
  void fingerprint(std::string* o) const override {
    for (size_t i = 0; i < inflight.size(); i++) { o->push_back((char)inflight[i]); o->push_back((char)(completions[i] > 3 ? 3 : completions[i])); o->push_back((char)(inflight[i] > 0 && undisturbed((int)i))); }
    o->push_back((char)failed);
  }
};


// ---------------------------------------------------------------------------------------------
// C20 (bus part): after arbitrary traffic the fixed probe telegram must still be decoded correctly.
class ProbeMonitor : public Monitor {
 public:
  ProbeMonitor(VSink* s, const Bytes& probeMaster) : sink(s), probe(probeMaster) {}
  VSink* sink;
  Bytes probe;
  bool armed = false, seen = false, failed = false;
  void onProbeStart() override { armed = true; }
  void onReport(int dir, const Bytes& m, const Bytes&) override {
    if (!armed || failed) return;
    if (dir == 0 && m == probe) {
      if (seen) { failed = true; sink->add("C20/probe-reported-twice", "probe telegram " + ref::hex(probe) + " reported twice"); }
      seen = true;
    }
  }
  void onEnd() override {
    if (armed && !seen && !failed) { failed = true; sink->add("C20/probe-not-decoded", "after the explored traffic the valid telegram " + ref::hex(probe) + " following a SYN was not reported"); }
  }
  void fingerprint(std::string* o) const override { o->push_back((char)(armed | (seen << 1) | (failed << 2))); }
};

}  // namespace bw

#endif  // VERIF_BUSMON_H_
