// C16 (listen path): a listening client is sent the updates of exactly the messages its level list grants.
//
// The level filter of `listen` does not sit in decodeRequest but in MainLoop::run, which delivers the updates with the
// next (possibly empty) request of the connection.  This harness runs the REAL MainLoop::run() in the harness thread: the
// request queue is fed by the requests themselves - every request is a real RequestImpl whose setResult() (called by
// run() when the request is done) performs the next step of the client's script (store bus data, advance the virtual
// clock, push the next request) and finally sets the shutdown flag, so that run() returns.  Script of one case:
//   [auth u <secret>]   listen   <all messages receive a value on the bus, one second later>   <empty request = what
//   Connection::run sends for a listening client>   -> the update lines of that answer are judged.
// Reference (C16 statement): a message with a level appears iff the level list granted to the client (the ACL entry of
// the authenticated user, otherwise the default entry) contains exactly that level or '*'; a message without level always.
#include <algorithm>
#include <set>
#include "mainloop_fixture.h"

using namespace ebusd;
using namespace fx;
using std::string;
using std::vector;

static vp::Result R;

static const char* LEVELS[] = {"", "a", "b", "ab", "ba"};
static const size_t NL = sizeof(LEVELS) / sizeof(LEVELS[0]);
static const char* LISTS[] = {"", "a", "b", "ab", "a;b", "b;ab", "ba;a", "*"};
static const size_t NLISTS = sizeof(LISTS) / sizeof(LISTS[0]);
static const char* AUTHS[] = {"none", "ok", "bad", "unknown"};
static const char* VARIANTS[] = {"listen", "listen -v", "listen -u", "listen -U"};  // -u: also unknown telegrams, -U: only those

struct Case { size_t d, u, auth, var; bool defFromAcl; };
static string caseString(const Case& c) {
  return "d=" + std::to_string(c.d) + ";u=" + std::to_string(c.u) + ";a=" + std::to_string(c.auth) + ";v=" + std::to_string(c.var) + ";s=" + (c.defFromAcl ? "acl" : "opt");
}
static Case parseCase(const string& s) {
  auto m = vp::parseCase(s);
  Case c;
  c.d = strtoul(m["d"].c_str(), nullptr, 10); c.u = strtoul(m["u"].c_str(), nullptr, 10);
  c.auth = strtoul(m["a"].c_str(), nullptr, 10); c.var = strtoul(m["v"].c_str(), nullptr, 10);
  c.defFromAcl = m["s"] != "opt";
  return c;
}

static bool refGranted(const string& level, const string& list) {
  if (level.empty()) return true;
  if (list == "*") return true;
  size_t pos = 0;
  while (pos <= list.size()) {
    size_t e = list.find(';', pos);
    if (e == string::npos) e = list.size();
    if (list.substr(pos, e - pos) == level) return true;
    pos = e + 1;
  }
  return false;
}
static string commas(string s) { std::replace(s.begin(), s.end(), ';', ','); return s; }

// ---- the scripted client ------------------------------------------------------------------------
struct Script;
class StepReq : public RequestImpl {
 public:
  StepReq(Script* s, size_t idx) : RequestImpl(false), script(s), index(idx) {}
  Script* script;
  size_t index;
  void setResult(const string& result, const string& user, RequestMode* mode, time_t listenUntil, bool disconnect) override;
};
struct Script {
  World* w = nullptr;
  vector<string> lines;        // "" = empty request of a listening connection
  vector<string> answers;
  size_t storeBefore = 0;      // the bus data arrives before this step is queued
  string user;
  RequestMode mode;
  time_t since = 0;
  vector<StepReq*> reqs;
  void queue(size_t i);
  void storeAll();
};
static unsigned g_round = 0;
void Script::storeAll() {
  g_now += 1;
  g_round++;
  for (size_t i = 0; i < NL; i++) {
    char nm[8];
    snprintf(nm, sizeof(nm), "m%zu", i);
    Message* m = w->messages->find("c", nm, "*", false);
    if (!m) { fprintf(stderr, "c16_listen: message %s missing\n", nm); exit(3); }
    MasterSymbolString ms;
    char hx[32];
    snprintf(hx, sizeof(hx), "3108b509020d%02zx", i + 1);
    ms.parseHex(hx);
    SlaveSymbolString ss;
    ss.push_back(1);
    ss.push_back(static_cast<symbol_t>(1 + (g_round % 200)));  // a CHANGED value every time: listen reports changes only
    m->storeLastData(ms, ss);
  }
  g_now += 1;
}
void Script::queue(size_t i) {
  if (i == storeBefore) storeAll();
  StepReq* r = new StepReq(this, i);
  reqs.push_back(r);
  // carry user / mode / listen position from answer to request as Connection::run does by reusing one RequestImpl
  r->m_user = user;
  r->m_mode = mode;
  r->m_listenSince = since;
  if (!lines[i].empty()) r->add((lines[i] + "\n").c_str());
  w->queue->push(r);
}
void StepReq::setResult(const string& result, const string& user, RequestMode* mode, time_t listenUntil, bool disconnect) {
  RequestImpl::setResult(result, user, mode, listenUntil, disconnect);
  script->answers.push_back(result);
  script->user = user;
  if (mode) script->mode = *mode;
  script->since = listenUntil;
  if (index + 1 < script->lines.size()) script->queue(index + 1);
  else script->w->loop->m_shutdown = true;
}

static World* g_world = nullptr;
static string g_curAcl;
static void prepare(const Case& c) {
  if (!g_world) {
    WorldConfig wc;
    std::ostringstream defs;
    defs << "# type,circuit,name,comment,qq,zz,pbsb,id,fields...\n";
    for (size_t i = 0; i < NL; i++) {
      char line[128];
      snprintf(line, sizeof(line), "r,c%s%s,m%zu,,,08,b509,0d%02zx,v,,UCH\n", LEVELS[i][0] ? "#" : "", LEVELS[i], i, i + 1);
      defs << line;
    }
    wc.csv = defs.str();
    g_world = new World(wc);
    if (g_world->loadResult != RESULT_OK) { fprintf(stderr, "c16_listen: definitions did not load: %s\n", g_world->loadError.c_str()); exit(3); }
  }
  string key = caseString(c).substr(0, caseString(c).find(";a=")) + (c.defFromAcl ? "acl" : "opt");
  if (key != g_curAcl) {
    std::ostringstream f;
    f << "# name,secret,level...\n";
    if (c.defFromAcl) f << "*,," << commas(LISTS[c.d]) << "\n";
    f << "u,sE," << commas(LISTS[c.u]) << "\n";
    g_world->newLoop(c.defFromAcl ? "" : commas(LISTS[c.d]), true, f.str());
    g_curAcl = key;
  }
}

// returns "" or the violated rule
static string runCase(const Case& c, string* log, string* cls) {
  prepare(c);
  World* w = g_world;
  g_now += 100;  // every case in its own time window: values of earlier cases are old
  Script s;
  s.w = w;
  s.mode.listenMode = lm_none; s.mode.format = OF_NONE; s.mode.listenWithUnknown = false; s.mode.listenOnlyUnknown = false;
  string auth = AUTHS[c.auth];
  if (auth == "ok") s.lines.push_back("auth u sE");
  else if (auth == "bad") s.lines.push_back("auth u x");
  else if (auth == "unknown") s.lines.push_back("auth z sE");
  s.lines.push_back(VARIANTS[c.var]);
  s.lines.push_back("");
  s.storeBefore = s.lines.size() - 1;
  while (!w->queue->m_queue.empty()) w->queue->pop();
  w->loop->m_shutdown = false;
  s.queue(0);
  w->loop->run();
  R.transitions += s.lines.size();
  string eff = auth == "ok" ? LISTS[c.u] : LISTS[c.d];
  string updates = s.answers.empty() ? string() : s.answers.back();
  string rule;
  string seenTxt, wantTxt;
  bool onlyUnknown = string(VARIANTS[c.var]) == "listen -U";
  for (size_t i = 0; i < NL; i++) {
    char nm[16];
    snprintf(nm, sizeof(nm), "c m%zu = ", i);
    bool seen = updates.find(nm) != string::npos;
    bool want = !onlyUnknown && refGranted(LEVELS[i], eff);
    if (seen) seenTxt += string(" m") + std::to_string(i) + "(" + LEVELS[i] + ")";
    if (want) wantTxt += string(" m") + std::to_string(i) + "(" + LEVELS[i] + ")";
    if (seen && !want && rule.empty()) rule = "listen-update-of-denied-message";
    if (!seen && want && rule.empty()) rule = "listen-update-withheld";
  }
  *cls = string(auth) + "/" + (eff == "*" ? "star" : eff.empty() ? "emptylist" : "list");
  if (log) {
    *log += "default levels (" + string(c.defFromAcl ? "ACL '*' row" : "--accesslevel") + "): \"" + LISTS[c.d] + "\"; user u levels: \"" + LISTS[c.u] + "\"; authentication: " + auth + "\n";
    for (size_t i = 0; i < s.lines.size(); i++) *log += "  client: <" + s.lines[i] + "> -> " + (i < s.answers.size() ? esc(s.answers[i].substr(0, 200)) : string("(no answer)")) + "\n";
    *log += "granted list: \"" + eff + "\"; updates expected for:" + wantTxt + "; updates received for:" + seenTxt + "\n";
  }
  for (StepReq* r : s.reqs) delete r;
  return rule;
}

int main(int argc, char** argv) {
  vp::Args A = vp::parseArgs(argc, argv);
  if (A.replay) {
    Case c = parseCase(A.replayCase);
    string log, cls;
    string rule = runCase(c, &log, &cls);
    printf("%s", log.c_str());
    printf("verdict: %s\n", rule.empty() ? "ok" : rule.c_str());
    return rule.empty() ? 0 : 1;
  }
  R.setDeadline(A);
  if (!refGranted("a", "b;a") || refGranted("a", "ab") || refGranted("ab", "a;b") || !refGranted("", "") || !refGranted("ba", "*")) { fprintf(stderr, "reference self-test\n"); return 3; }
  uint64_t idx = 0;
  for (int src = 0; src < 2; src++) for (size_t d = 0; d < NLISTS; d++) for (size_t u = 0; u < NLISTS; u++) {
    // one partition owns all cases of an ACL (the MainLoop is rebuilt per ACL)
    if (static_cast<int>(idx++ % A.nparts) != A.part) continue;
    if (R.expired()) break;
    for (size_t a = 0; a < 4; a++) for (size_t v = 0; v < 4; v++) {
      Case c{d, u, a, v, src == 0};
      string cls;
      string rule = runCase(c, nullptr, &cls);
      R.evaluations++; R.tracesValidated++;
      R.distinct(caseString(c));
      if (R.evaluations % 397 == 1) { string log; runCase(c, &log, &cls); R.sample(log.substr(0, 400)); }
      if (!rule.empty()) {
        string log;
        runCase(c, &log, &cls);
        R.violation("C16/" + rule + "/" + string(VARIANTS[c.var]).substr(0, 6) + (string(VARIANTS[c.var]).size() > 6 ? string(VARIANTS[c.var]).substr(7) : string()) + "/" + cls, log, caseString(c));
      }
    }
  }
  R.write(A.out);
  return 0;
}
