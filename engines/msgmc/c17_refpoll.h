// C17 reference: what the statement "polling is starvation-free and proportional to priority" demands
// of a sequence of selections over a fixed set of messages with priorities p_i (unperturbed run).
// Written from the property statement and the documented algorithm (virtual-time / stride polling:
// every message owns a virtual time of its next poll, the smallest is polled and advanced by its
// priority; a message that newly gets a priority is placed at "last polled virtual time + priority").
//
// For that algorithm, with v = smallest virtual time and every o_i in [v, v + p_i] (which every
// selection, priority change and insertion of the documented algorithm preserves):
//  (W) before m is selected, another message j can only be selected at virtual times <= o_m, that is
//      at most floor(p_m/p_j)+1 times.  Bound used: sum_{j!=m}(ceil(p_m/p_j)+2)  (one spare per
//      message for ties).
//  (F) in a run of T selections with D = advance of the smallest virtual time, n_i = D/p_i + d_i with
//      |d_i| <= 1, hence with H = sum 1/p_j and e_i = T/(p_i H):
//      |n_i - e_i| <= 1 + (N-2)/(p_i H) <= N-1  <= 3 for N <= 4.   Bound used: 3.
//  (E) equal priorities: |n_i - n_j| <= 2.
// The bounds depend on the priorities only, never on the length of the history.
#ifndef VERIF_C17_REFPOLL_H_
#define VERIF_C17_REFPOLL_H_

#include <math.h>
#include <algorithm>
#include <stdio.h>
#include <string>
#include <vector>

namespace c17 {

struct RefPoll {
  std::vector<int> prio;  // priorities of the polled messages (index = position in this vector)
  explicit RefPoll(const std::vector<int>& p) : prio(p) {}
  long sumPrio() const { long s = 0; for (int p : prio) s += p; return s; }
  long runLength() const { return 40 * sumPrio(); }
  long waitBound(size_t m) const {
    long b = 0;
    for (size_t j = 0; j < prio.size(); j++) {
      if (j == m) continue;
      b += (prio[m] + prio[j] - 1) / prio[j] + 2;
    }
    return b;
  }
  double expected(size_t i, long T) const {
    double h = 0;
    for (int p : prio) h += 1.0 / p;
    return T * (1.0 / prio[i]) / h;
  }
  static double freqTolerance() { return 3.0; }
  static long equalTolerance() { return 2; }

  struct Finding { std::string rule; size_t msg; std::string detail; };
  // seq: indexes into prio, or -1 for "no message returned"
  std::vector<Finding> judge(const std::vector<int>& seq) const {
    std::vector<Finding> out;
    char b[200];
    size_t N = prio.size();
    long T = static_cast<long>(seq.size());
    std::vector<long> n(N, 0), last(N, -1), maxGap(N, 0);
    for (long k = 0; k < T; k++) {
      int s = seq[k];
      if (s < 0 || s >= static_cast<int>(N)) {
        snprintf(b, sizeof(b), "selection %ld returned no pollable message", k);
        out.push_back({"null-selection", 0, b});
        return out;
      }
      long gap = k - last[s] - 1;
      if (gap > maxGap[s]) maxGap[s] = gap;
      last[s] = k;
      n[s]++;
    }
    for (size_t m = 0; m < N; m++) {
      long gap = T - 1 - last[m];
      if (gap > maxGap[m]) maxGap[m] = gap;
      if (N > 1 && maxGap[m] > waitBound(m)) {
        snprintf(b, sizeof(b), "message #%zu (priority %d) waited %ld selections, bound %ld", m, prio[m], maxGap[m], waitBound(m));
        out.push_back({"wait-bound", m, b});
      }
    }
    for (size_t i = 0; i < N; i++) {
      double e = expected(i, T);
      if (fabs(n[i] - e) > freqTolerance() + 1e-9) {
        snprintf(b, sizeof(b), "message #%zu (priority %d) selected %ld times in %ld selections, expected %.2f +-%.0f", i, prio[i], n[i], T, e, freqTolerance());
        out.push_back({"frequency", i, b});
      }
    }
    for (size_t i = 0; i < N; i++) for (size_t j = i + 1; j < N; j++) {
      if (prio[i] != prio[j]) continue;
      long d = n[i] - n[j];
      if (d < 0) d = -d;
      if (d > equalTolerance()) {
        snprintf(b, sizeof(b), "messages #%zu and #%zu (both priority %d) selected %ld and %ld times", i, j, prio[i], n[i], n[j]);
        out.push_back({"equal-priority", i, b});
      }
    }
    return out;
  }
};

// ---- periodically perturbed runs -----------------------------------------------------------------
// Pattern: repeat { q selections ; one perturbation of slot m }.
//  kind 'P': priority of m set alternately to a and b (the call pattern of MainLoop: setPollPriority, and
//            addPollMessage(false) when it returns true)
//  kind 'F': addPollMessage(true, m)  (front insertion, priorities constant)
//  kind 'A': m is (removed if defined and) defined anew with priority alternately a and b
// What the statement fixes and the documented algorithm guarantees (v = smallest virtual time, g = virtual
// time of the last selection, g <= v, every o_i in [v, v+p_i], a priority change sets o_m = min(o_m, g+p_new):
// it never postpones m; a new message starts at g+p):
//  (W') a message j other than m is selected at virtual times <= o_j only; consecutive selections of slot m are
//       at least min(a,b) apart (after a selection at x its time is x+p_cur, lowered at most to g+p_new >= x+p_new;
//       a new incarnation starts at g+p >= x+p), so while j waits m is selected at most floor(p_j/min(a,b))+1
//       times: the bound formula with p_m = min(a,b) (and the initial priority of m while the wait began before
//       the first perturbation).  For m itself under 'P': o_m <= (time it was selected or enabled) + largest
//       priority it had in the window and is never postponed: the bound formula with p_m = max(a,b) (max with
//       the initial priority for the wait that began before the first perturbation).
//       Under 'A' every incarnation of m is a new message whose waiting starts anew: m is not judged.
//  (F') for two messages i, j other than m (orders never touched by the perturbation): with V the virtual time
//       of the last selection, n_i*p_i lies in [V-v-p_i, V-v+p_i], hence |n_i*p_i - n_j*p_j| <= p_i+p_j
//       (equal priorities: at most 2 apart).  The share of m itself is not judged (its priority is not constant).
//  'F' changes tie-breaks only: the unperturbed rules (W), (F), (E) apply unchanged.
struct PerturbPattern {
  char kind = 'P';
  int m = 0, a = 1, b = 1, q = 1;
  std::string str() const {
    char s[48];
    if (kind == 'F') snprintf(s, sizeof(s), "F%d:q%d", m, q);
    else snprintf(s, sizeof(s), "%c%d:%d:%d:q%d", kind, m, a, b, q);
    return s;
  }
  static bool parse(const std::string& t, PerturbPattern* p) {
    int m, a, b, q;
    char k;
    if (sscanf(t.c_str(), "%c%d:%d:%d:q%d", &k, &m, &a, &b, &q) == 5 && (k == 'P' || k == 'A')) {
      p->kind = k; p->m = m; p->a = a; p->b = b; p->q = q;
    } else if (sscanf(t.c_str(), "F%d:q%d", &m, &q) == 2) {
      p->kind = 'F'; p->m = m; p->a = p->b = 0; p->q = q;
    } else {
      return false;
    }
    return p->m >= 0 && p->m < 4 && p->q >= 1 && p->q <= 9 && p->a >= 0 && p->a <= 9 && p->b >= 0 && p->b <= 9;
  }
  // number of repetitions so that the run has at least 40*sum(p) selections (re-definition through the CSV
  // reader is two orders of magnitude more expensive than a selection: 10*sum(p) there, still several times
  // the largest waiting bound)
  long repetitions(long sumPrio) const { return ((kind == 'A' ? 10 : 40) * sumPrio + q - 1) / q; }
};

// events: >= 0 selection of that slot, EV_NULL no message returned, EV_PERTURB the perturbation was applied
static const int EV_NULL = -1, EV_PERTURB = -2;

struct RefPerturbed {
  PerturbPattern pat;
  std::vector<int> prio0;  // per slot: -1 not defined, 0 defined without priority, > 0 priority at the start
  RefPerturbed(const PerturbPattern& p, const std::vector<int>& p0) : pat(p), prio0(p0) {}

  static long ceilDiv(long x, long y) { return (x + y - 1) / y; }

  std::vector<RefPoll::Finding> judge(const std::vector<int>& events) const {
    std::vector<RefPoll::Finding> out;
    char buf[240];
    size_t S = prio0.size();
    if (pat.kind == 'F') {
      // constant priorities: the unperturbed rules
      std::vector<int> idx(S, -1), prio;
      for (size_t k = 0; k < S; k++) if (prio0[k] > 0) { idx[k] = static_cast<int>(prio.size()); prio.push_back(prio0[k]); }
      std::vector<int> seq;
      for (int e : events) {
        if (e == EV_PERTURB) continue;
        seq.push_back(e >= 0 && e < static_cast<int>(S) ? idx[e] : -1);
      }
      for (auto& f : RefPoll(prio).judge(seq)) out.push_back({f.rule + "-perturbed", f.msg, f.detail});
      return out;
    }
    std::vector<int> cur(prio0);           // current priority per slot (<= 0: not pollable)
    std::vector<long> wait(S, 0), n(S, 0), worst(S, 0), worstBound(S, 0);
    std::vector<bool> waitBeganBefore(S, true);  // the current wait began before the first perturbation
    bool perturbed = false;
    int toggles = 0;
    int lo = std::min(pat.a, pat.b), hi = std::max(pat.a, pat.b);
    size_t m = static_cast<size_t>(pat.m);
    // bound for the current wait of slot j
    auto bound = [&](size_t j) {
      long pj = cur[j];
      if (j == m) { pj = hi; if (waitBeganBefore[j] && prio0[j] > hi) pj = prio0[j]; }
      long b = 0;
      for (size_t i = 0; i < S; i++) {
        if (i == j) continue;
        long pi = cur[i];
        if (i == m) {
          // smallest priority slot m had while j was waiting
          pi = perturbed ? lo : prio0[i];
          if (waitBeganBefore[j] && prio0[i] > 0 && prio0[i] < pi) pi = prio0[i];
          if (!perturbed && prio0[i] <= 0) continue;
        }
        if (pi <= 0) continue;
        b += ceilDiv(pj, pi) + 2;
      }
      return b;
    };
    auto check = [&](size_t j) {
      if (cur[j] <= 0) return;
      if (pat.kind == 'A' && j == m) return;  // every incarnation is a new message
      long b = bound(j);
      if (wait[j] > b && wait[j] - b > worst[j] - worstBound[j]) { worst[j] = wait[j]; worstBound[j] = b; }
    };
    long k = 0;
    for (int e : events) {
      if (e == EV_PERTURB) {
        int p = (toggles++ % 2 == 0) ? pat.a : pat.b;
        if (pat.kind == 'A' || cur[m] <= 0) { wait[m] = 0; waitBeganBefore[m] = false; }  // new / newly enabled
        cur[m] = p;
        if (!perturbed) {
          perturbed = true;
        }
        continue;
      }
      bool anyPollable = false;
      for (size_t j = 0; j < S; j++) if (cur[j] > 0) anyPollable = true;
      if (e == EV_NULL && !anyPollable) { k++; continue; }  // nothing to poll: nothing to judge
      if (e < 0 || e >= static_cast<int>(S) || cur[static_cast<size_t>(e)] <= 0) {
        snprintf(buf, sizeof(buf), "selection %ld returned %s", k, e < 0 ? "no pollable message" : "a message without priority");
        out.push_back({"null-selection-perturbed", 0, buf});
        return out;
      }
      size_t s = static_cast<size_t>(e);
      for (size_t j = 0; j < S; j++) {
        if (j == s || cur[j] <= 0) continue;
        wait[j]++;
        check(j);
      }
      wait[s] = 0;
      waitBeganBefore[s] = !perturbed;
      n[s]++;
      k++;
    }
    for (size_t j = 0; j < S; j++) {
      if (worst[j] > worstBound[j]) {
        snprintf(buf, sizeof(buf), "%s message m%zu waited %ld selections, bound %ld", j == m ? "the perturbed" : "the unperturbed", j, worst[j], worstBound[j]);
        out.push_back({"wait-bound-perturbed", j, buf});
      }
    }
    for (size_t i = 0; i < S; i++) for (size_t j = i + 1; j < S; j++) {
      if (i == m || j == m || prio0[i] <= 0 || prio0[j] <= 0) continue;
      long d = n[i] * prio0[i] - n[j] * prio0[j];
      if (d < 0) d = -d;
      if (d > prio0[i] + prio0[j]) {
        snprintf(buf, sizeof(buf), "unperturbed messages m%zu (priority %d) and m%zu (priority %d) selected %ld and %ld times: n*p differ by %ld, allowed %d",
                 i, prio0[i], j, prio0[j], n[i], n[j], d, prio0[i] + prio0[j]);
        out.push_back({"share-perturbed", i, buf});
      }
    }
    return out;
  }
};

// the documented algorithm with perturbations, for the self-test; variant 1 = the postponing defect
// (every priority change of a waiting message restarts it at g+p)
struct IdealPoll {
  std::vector<long> o;
  std::vector<int> p;   // <= 0 not pollable
  long g = 0;
  int tie = 0, variant = 0;
  int next() {
    int best = -1;
    for (size_t i = 0; i < o.size(); i++) {
      if (p[i] <= 0) continue;
      if (best < 0 || o[i] < o[best] || (o[i] == o[best] && tie == 1)) best = static_cast<int>(i);
    }
    if (best < 0) return EV_NULL;
    if (o[best] > g) g = o[best];
    o[best] += p[best];
    return best;
  }
  void setPrio(size_t m, int pr) {
    if (p[m] == pr) return;
    bool fresh = p[m] <= 0;
    p[m] = pr;
    if (fresh || (variant == 1 ? o[m] > g : o[m] > g + pr)) o[m] = g + pr;
  }
  void define(size_t m, int pr) { p[m] = pr; o[m] = g + pr; }
};

inline std::vector<int> idealPerturbedRun(IdealPoll* w, const PerturbPattern& pat) {
  long sum = 0;
  for (size_t i = 0; i < w->p.size(); i++) if (static_cast<int>(i) != pat.m && w->p[i] > 0) sum += w->p[i];
  sum += pat.kind == 'F' ? std::max(0, w->p[static_cast<size_t>(pat.m)]) : std::max(pat.a, pat.b);
  long R = pat.repetitions(sum);
  std::vector<int> ev;
  int toggles = 0;
  for (long r = 0; r < R; r++) {
    for (int i = 0; i < pat.q; i++) ev.push_back(w->next());
    int pr = (toggles++ % 2 == 0) ? pat.a : pat.b;
    if (pat.kind == 'P') w->setPrio(static_cast<size_t>(pat.m), pr);
    else if (pat.kind == 'A') w->define(static_cast<size_t>(pat.m), pr);
    ev.push_back(EV_PERTURB);
  }
  return ev;
}

// ---- self test: the ideal algorithm must satisfy the monitor from every state that keeps
// o_i in [v, v+p_i], with either tie-break; hand-made unfair schedulers must be caught ------------
inline bool refPollSelfTest(std::string* why) {
  static const int PR[4] = {1, 2, 3, 9};
  char b[200];
  for (int N = 1; N <= 4; N++) {
    int tuples = 1;
    for (int i = 0; i < N; i++) tuples *= 4;
    for (int t = 0; t < tuples; t++) {
      std::vector<int> p(N);
      int x = t;
      for (int i = 0; i < N; i++) { p[i] = PR[x % 4]; x /= 4; }
      RefPoll ref(p);
      long T = ref.runLength();
      // all start offsets o_i in [0, p_i] for N <= 3, the corners and the middle for N = 4
      std::vector<std::vector<long> > choices(N);
      for (int i = 0; i < N; i++) {
        if (N <= 3) { for (long o = 0; o <= p[i]; o++) choices[i].push_back(o); }
        else { choices[i].push_back(0); if (p[i] > 1) choices[i].push_back(p[i] / 2); choices[i].push_back(p[i]); }
      }
      std::vector<size_t> idx(N, 0);
      while (true) {
        std::vector<long> o0(N);
        bool hasMin = false;
        for (int i = 0; i < N; i++) { o0[i] = choices[i][idx[i]]; if (o0[i] == 0) hasMin = true; }
        if (hasMin) {
          for (int tie = 0; tie < 2; tie++) {
            std::vector<long> o = o0;
            std::vector<int> seq;
            for (long k = 0; k < T; k++) {
              int best = -1;
              for (int i = 0; i < N; i++) {
                if (best < 0 || o[i] < o[best] || (o[i] == o[best] && tie == 1)) best = i;
              }
              o[best] += p[best];
              seq.push_back(best);
            }
            std::vector<RefPoll::Finding> f = ref.judge(seq);
            if (!f.empty()) {
              snprintf(b, sizeof(b), "ideal algorithm rejected (N=%d tuple=%d tie=%d): %s %s", N, t, tie, f[0].rule.c_str(), f[0].detail.c_str());
              *why = b;
              return false;
            }
          }
        }
        int c = 0;
        while (c < N && ++idx[c] >= choices[c].size()) { idx[c] = 0; c++; }
        if (c >= N) break;
      }
    }
  }
  {  // negative: round robin ignoring priorities 1 and 9
    RefPoll ref({1, 9});
    std::vector<int> seq;
    for (long k = 0; k < ref.runLength(); k++) seq.push_back(static_cast<int>(k % 2));
    bool freq = false;
    for (auto& f : ref.judge(seq)) if (f.rule == "frequency") freq = true;
    if (!freq) { *why = "round robin over priorities 1,9 not rejected by the frequency rule"; return false; }
  }
  {  // negative: one message never selected
    RefPoll ref({2, 2, 3});
    std::vector<int> seq;
    for (long k = 0; k < ref.runLength(); k++) seq.push_back(static_cast<int>(k % 2));
    bool wait = false;
    for (auto& f : ref.judge(seq)) if (f.rule == "wait-bound") wait = true;
    if (!wait) { *why = "starved message not rejected by the wait-bound rule"; return false; }
  }
  {  // negative: burst - correct frequencies overall but a long gap
    RefPoll ref({1, 1});
    std::vector<int> seq;
    long T = ref.runLength();
    for (long k = 0; k < T; k++) seq.push_back(k < T / 2 ? 0 : 1);
    bool wait = false;
    for (auto& f : ref.judge(seq)) if (f.rule == "wait-bound") wait = true;
    if (!wait) { *why = "burst schedule not rejected by the wait-bound rule"; return false; }
  }
  {  // negative: equal priorities served 2:1
    RefPoll ref({3, 3});
    std::vector<int> seq;
    for (long k = 0; k < ref.runLength(); k++) seq.push_back(k % 3 == 2 ? 1 : 0);
    bool eq = false;
    for (auto& f : ref.judge(seq)) if (f.rule == "equal-priority") eq = true;
    if (!eq) { *why = "2:1 service of equal priorities not rejected"; return false; }
  }
  {  // perturbed runs: the documented algorithm passes for every pattern from every legal start offset of three
     // messages; the postponing variant is rejected
    static const int QS[4] = {1, 2, 3, 5};
    bool defectSeen = false;
    for (int t = 0; t < 64; t++) {
      int pr[3] = {PR[t % 4], PR[(t / 4) % 4], PR[(t / 16) % 4]};
      if (pr[0] > pr[1] || pr[1] > pr[2]) continue;
      for (int offs : {0, 3, 5}) {
        for (char kind : {'P', 'A', 'F'}) for (int m = 0; m < 3; m++) for (int ai = 0; ai < 4; ai++) for (int bi = 0; bi < 4; bi++) for (int qi = 0; qi < 4; qi++) {
          if (kind == 'F' && (ai || bi)) continue;
          PerturbPattern pat;
          pat.kind = kind; pat.m = m; pat.a = kind == 'F' ? 0 : PR[ai]; pat.b = kind == 'F' ? 0 : PR[bi]; pat.q = QS[qi];
          for (int variant = 0; variant < 2; variant++) for (int tie = 0; tie < 2; tie++) {
            if (variant == 1 && (kind != 'P' || offs != 0)) continue;
            IdealPoll w;
            w.tie = tie; w.variant = variant;
            std::vector<int> p0;
            bool hasMin = false;
            for (int i = 0; i < 3; i++) {
              long o = (offs >> i) & 1 ? pr[i] : 0;
              if (o == 0) hasMin = true;
              w.o.push_back(o); w.p.push_back(pr[i]); p0.push_back(pr[i]);
            }
            if (!hasMin) continue;
            std::vector<int> ev = idealPerturbedRun(&w, pat);
            std::vector<RefPoll::Finding> f = RefPerturbed(pat, p0).judge(ev);
            if (variant == 0 && !f.empty()) {
              snprintf(b, sizeof(b), "ideal algorithm rejected in perturbed run %s priorities %d,%d,%d offsets %d tie %d: %s %s", pat.str().c_str(), pr[0], pr[1], pr[2], offs, tie, f[0].rule.c_str(), f[0].detail.c_str());
              *why = b;
              return false;
            }
            if (variant == 1) for (auto& x : f) if (x.rule == "wait-bound-perturbed") defectSeen = true;
          }
        }
      }
    }
    if (!defectSeen) { *why = "postponing setPollPriority variant not rejected by any perturbed run"; return false; }
    // hand trace: priorities 1,1 and m2 toggling 3/9 every selection under the postponing variant is starved
    IdealPoll w;
    w.variant = 1;
    w.o = {0, 0, 0}; w.p = {1, 1, 3};
    PerturbPattern pat;
    pat.kind = 'P'; pat.m = 2; pat.a = 9; pat.b = 3; pat.q = 1;
    bool starved = false;
    for (auto& x : RefPerturbed(pat, {1, 1, 3}).judge(idealPerturbedRun(&w, pat))) if (x.rule == "wait-bound-perturbed" && x.msg == 2) starved = true;
    if (!starved) { *why = "starvation by repeated postponing not rejected"; return false; }
  }
  {  // negative: no message
    RefPoll ref({1, 2});
    std::vector<int> seq(10, 0);
    seq[3] = -1;
    bool nul = false;
    for (auto& f : ref.judge(seq)) if (f.rule == "null-selection") nul = true;
    if (!nul) { *why = "missing selection not rejected"; return false; }
  }
  return true;
}

}  // namespace c17

#endif  // VERIF_C17_REFPOLL_H_
