// C13 helper: configurations (referenced messages, condition parts, value vectors), the reference
// model RefCondition written from the property statement, and the configuration enumeration.
#ifndef VERIF_C13_CONFIG_H_
#define VERIF_C13_CONFIG_H_

#include <stdio.h>
#include <map>
#include <set>
#include <string>
#include <vector>
#include "vout.h"

namespace c13 {

using std::string;
using std::vector;

// ---- what a field / message / condition is, as the CSV author sees it ---------------------------
struct FieldDef {
  char kind;    // 'N' numeric 1 byte (UCH), 'W' numeric 2 bytes (UIN), 'S' string of 2 characters (STR:2),
                // scan message only: 'P' numeric BCD 2 bytes (PIN), '5' string of 5 characters (STR:5),
                // 'i' / 'j' ignored filler of 1 / 2 bytes (IGN:1, IGN:2; no name, not a field for the CSV author),
                // 'L' numeric 4 bytes (ULG) with the value alphabet BIGS
  string name;
  bool numeric() const { return kind == 'N' || kind == 'W' || kind == 'P' || kind == 'L'; }
  bool ignored() const { return kind == 'i' || kind == 'j'; }
};

struct MsgDef {
  string name;             // message name in circuit "c"; empty for the scan message of address 08
  string idHex;            // PBSB+ID
  vector<FieldDef> fields;
  char part = 's';         // 's' active read message, fields in the slave part; 'm' active read message, fields in the
                           // master part; 'u' passive write message (uw), fields in the master part
  bool noDst = false;      // defined WITHOUT destination address; the condition supplies ZZ (08) and ebusd derives a
                           // clone of the message for that address, which is the one that receives the bus data
  bool scan() const { return name.empty(); }
  size_t realFields() const { size_t n = 0; for (const FieldDef& f : fields) if (!f.ignored()) n++; return n; }
  bool hasFiller() const { return realFields() != fields.size(); }
};

// one stored value per field: numeric value or string
struct Value {
  unsigned num = 0;
  string str;
};
typedef vector<Value> ValueVector;  // one entry per field of the message

enum CondKind { CK_NUM, CK_STR, CK_SEEN };

// one simple condition
struct Part {
  string condName;         // name under which the guard references it, e.g. "k" or "k<3" (derived on the fly)
  string defName;          // name of the defined condition (differs from condName for derived ones)
  int msg = 0;             // index of the referenced message in Config::msgs, -1 = a message that does not exist
  string fieldRef;         // field name given in the definition, empty = unnamed
  CondKind kind = CK_NUM;  // kind of the judged condition (the derived one for derived parts)
  string valueText;        // value list of the judged condition in CSV syntax
  string baseValueText;    // derived parts: value list of the defined base condition ("" = base without values)
  std::set<unsigned> numTrue;   // reference semantics: the numeric values (of the explored alphabet) that satisfy it
  std::set<string> strTrue;     // reference semantics: the strings that satisfy it
  string shape;            // list range lt gt le ge mixed string strlist seen
  bool derived = false;
};

struct Config {
  string desc;             // descriptor (part of the case string)
  string family;
  vector<MsgDef> msgs;
  vector<Part> parts;      // the guard is the AND of all parts
  bool alt = false;        // a second definition of g guarded by another condition (complementary "k2", or a second
  Part altPart;            // condition derived from the same base)
  vector<Part> extras;     // conditions that are defined in the file but guard nothing (resolution only)
  vector<vector<ValueVector> > values;  // per message: the value vectors a history may store
  bool valid = false;
};

// ---- RefCondition: the reference semantics from the property statement -----------------------
// resolve: the referenced message exists and has the named (or, if unnamed, a first) field of the required kind;
//          a condition without values only needs the message.
// returns 1 resolvable, 0 not resolvable, -1 the statement does not fix it (not generated)
inline int refResolvable(const Config& c, const Part& p, int* targetField) {
  *targetField = -1;
  if (p.msg < 0) return 0;
  const MsgDef& m = c.msgs[p.msg];
  if (p.kind == CK_SEEN) return p.fieldRef.empty() ? 1 : -1;
  bool wantNumeric = p.kind == CK_NUM;
  if (p.fieldRef.empty()) {
    // an ignored filler is not a field: "a first field" is the first one that is not ignored
    size_t first = 0;
    while (first < m.fields.size() && m.fields[first].ignored()) first++;
    if (first >= m.fields.size()) return 0;
    if (m.fields[first].numeric() != wantNumeric) {
      // the first field is of the other kind: "a first field of the required kind" is then the first one of that kind
      // ("whatever the number and kinds of its fields").  With exactly one such field the statement fixes everything;
      // with none or several it stays open (which of them is meant is the subject
      // of the recorded finding about unnamed conditions)
      int cnt = 0, idx = -1;
      for (size_t i = 0; i < m.fields.size(); i++) if (!m.fields[i].ignored() && m.fields[i].numeric() == wantNumeric) { cnt++; if (idx < 0) idx = static_cast<int>(i); }
      if (cnt != 1) return -1;
      *targetField = idx;
      return 1;
    }
    *targetField = static_cast<int>(first);
    return 1;
  }
  for (size_t i = 0; i < m.fields.size(); i++) {
    if (!m.fields[i].ignored() && m.fields[i].name == p.fieldRef) {
      if (m.fields[i].numeric() != wantNumeric) return 0;
      *targetField = static_cast<int>(i);
      return 1;
    }
  }
  return 0;
}

// verdict of one part for the most recently stored value vector (nullptr = never stored)
inline bool refPartTrue(const Part& p, int targetField, const ValueVector* last) {
  if (last == nullptr) return false;
  if (p.kind == CK_SEEN) return true;
  const Value& v = (*last)[static_cast<size_t>(targetField)];
  if (p.kind == CK_NUM) return p.numTrue.count(v.num) > 0;
  return p.strTrue.count(v.str) > 0;
}

// ---- alphabets ----------------------------------------------------------------------------------
static const unsigned NUMS[4] = {1, 2, 3, 4};
static const char* STRS[4] = {"ab", "cd", "ef", "gh"};
static const char* STRS5[4] = {"abcde", "fghij", "klmno", "pqrst"};
static const unsigned BIGS[4] = {2, 65535, 65536, 4294967294u};  // values of 4-byte fields: around 16 bit and near UINT_MAX

struct Shape { const char* name; CondKind kind; const char* text; vector<unsigned> nums; vector<int> strIdx; };
inline const vector<Shape>& shapes() {
  static const vector<Shape> s = {
    {"list", CK_NUM, "1;3", {1, 3}, {}},
    {"range", CK_NUM, "2-3", {2, 3}, {}},
    {"lt", CK_NUM, "<3", {1, 2}, {}},
    {"gt", CK_NUM, ">2", {3, 4}, {}},
    {"le", CK_NUM, "<=2", {1, 2}, {}},
    {"ge", CK_NUM, ">=3", {3, 4}, {}},
    {"mixed", CK_NUM, "1;3-4", {1, 3, 4}, {}},
    // ranges that overlap / contain each other, entries not in ascending order, two open ranges (an entry list is an OR)
    {"nested", CK_NUM, "2-9;3-5", {2, 3, 4}, {}},
    {"unsorted", CK_NUM, "3-4;1", {1, 3, 4}, {}},
    {"outer", CK_NUM, "<2;>3", {1, 4}, {}},
    {"string", CK_STR, "", {}, {0}},
    {"strlist", CK_STR, "", {}, {0, 2}},
    {"seen", CK_SEEN, "", {}, {}},
  };
  return s;
}
// shapes over the alphabet BIGS (4-byte fields only)
inline const vector<Shape>& bigShapes() {
  static const vector<Shape> s = {
    {"bgt", CK_NUM, ">65535", {65536, 4294967294u}, {}},
    {"bge", CK_NUM, ">=3", {65535, 65536, 4294967294u}, {}},
    {"blt", CK_NUM, "<65536", {2, 65535}, {}},
    {"ble", CK_NUM, "<=65535", {2, 65535}, {}},
    {"brange", CK_NUM, "65536-4294967294", {65536, 4294967294u}, {}},
    {"blist", CK_NUM, "2;4294967294", {2, 4294967294u}, {}},
  };
  return s;
}
inline const Shape* findShape(const string& n) {
  for (const Shape& s : shapes()) if (n == s.name) return &s;
  for (const Shape& s : bigShapes()) if (n == s.name) return &s;
  return nullptr;
}
inline bool isBigShape(const string& n) { return !n.empty() && n[0] == 'b'; }

inline void applyShape(Part* p, const Shape& s, bool str5) {
  p->shape = s.name;
  p->kind = s.kind;
  p->numTrue.clear();
  p->strTrue.clear();
  if (s.kind == CK_NUM) {
    p->valueText = s.text;
    p->numTrue.insert(s.nums.begin(), s.nums.end());
  } else if (s.kind == CK_STR) {
    string t;
    for (int i : s.strIdx) {
      const char* v = str5 ? STRS5[i] : STRS[i];
      if (!t.empty()) t += ";";
      t += string("'") + v + "'";
      p->strTrue.insert(v);
    }
    p->valueText = t;
  } else {
    p->valueText = "";
  }
}

// value vectors for a message when field `target` is the judged one: the target takes alphabet value j,
// every other field takes the alphabet rotated by its distance (so that a wrong field gives a wrong verdict)
inline vector<ValueVector> rotatedVectors(const MsgDef& m, int target) {
  vector<ValueVector> out;
  if (target < 0) target = 0;
  for (int j = 0; j < 4; j++) {
    ValueVector vv;
    for (size_t i = 0; i < m.fields.size(); i++) {
      int rot = (j + static_cast<int>(i) - target + 8) % 4;
      Value v;
      if (m.fields[i].kind == 'L') v.num = BIGS[rot];
      else if (m.fields[i].numeric() || m.fields[i].ignored()) v.num = NUMS[rot];  // filler: first byte = rotated value, rest 00
      else v.str = m.fields[i].kind == '5' ? STRS5[rot] : STRS[rot];
      vv.push_back(v);
    }
    out.push_back(vv);
  }
  return out;
}

inline MsgDef makeMsg(const string& name, const string& idHex, const string& layout, char part = 's') {
  MsgDef m;
  m.name = name;
  m.idHex = idHex;
  m.part = part;
  for (size_t i = 0; i < layout.size(); i++) {
    char b[8];
    snprintf(b, sizeof(b), "f%zu", i);
    bool ign = layout[i] == 'i' || layout[i] == 'j';
    m.fields.push_back({layout[i], ign ? string() : string(b)});
  }
  return m;
}
inline bool validLayout(const string& lay, const string& part) {
  if (lay.empty() || lay.size() > 4 || (part != "s" && part != "m" && part != "u")) return false;
  bool real = false;
  for (char ch : lay) {
    if (ch != 'N' && ch != 'W' && ch != 'S' && ch != 'i' && ch != 'j' && ch != 'L') return false;
    if (ch != 'i' && ch != 'j') real = true;
  }
  return real;
}
inline MsgDef makeScanMsg() {
  MsgDef m;
  m.idHex = "0704";
  m.fields = {{'N', "MF"}, {'5', "ID"}, {'P', "SW"}, {'P', "HW"}};
  return m;
}

// is an unnamed condition of the given kind on a message of this layout fixed by the statement? (see refResolvable)
inline bool unnamedFixed(const std::string& lay, bool wantNumeric) {
  size_t first = 0;
  while (first < lay.size() && (lay[first] == 'i' || lay[first] == 'j')) first++;
  if (first >= lay.size()) return true;
  auto numericChar = [](char ch) { return ch != 'S' && ch != 'i' && ch != 'j'; };
  if (numericChar(lay[first]) == wantNumeric) return true;
  int cnt = 0;
  for (char ch : lay) if (ch != 'i' && ch != 'j' && numericChar(ch) == wantNumeric) cnt++;
  return cnt == 1;
}
// field reference token: "n<i>" named field i, "u" unnamed, "x" a name no field has, "nomsg" message missing
inline bool applyRef(Config* c, Part* p, const string& ref) {
  const MsgDef& m = c->msgs[static_cast<size_t>(p->msg)];
  if (ref == "u") { p->fieldRef = ""; return true; }
  if (ref == "x") { p->fieldRef = "zz"; return true; }
  if (ref == "nomsg") { p->msg = -1; p->fieldRef = ""; return true; }
  if (ref.size() == 2 && ref[0] == 'n' && ref[1] >= '0' && static_cast<size_t>(ref[1] - '0') < m.fields.size() &&
      !m.fields[static_cast<size_t>(ref[1] - '0')].ignored()) {
    p->fieldRef = m.fields[static_cast<size_t>(ref[1] - '0')].name;
    return true;
  }
  return false;
}

// builds a configuration from its descriptor "fam=...;..." (without the ops part)
inline Config makeConfig(const string& desc) {
  Config c;
  c.desc = desc;
  auto kv = vp::parseCase(desc);
  c.family = kv["fam"];
  string lay = kv["lay"], shape = kv["shape"], ref = kv["ref"], part = kv.count("part") ? kv["part"] : string("s");
  if (c.family == "simple" || c.family == "alt") {
    const Shape* s = findShape(shape);
    if (!s || !validLayout(lay, part)) return c;
    c.msgs.push_back(makeMsg("ref", "b5090d0000", lay, part[0]));
    Part p;
    p.condName = p.defName = "k";
    p.msg = 0;
    applyShape(&p, *s, false);
    if (!applyRef(&c, &p, ref)) return c;
    c.parts.push_back(p);
    int t = -1;
    refResolvable(c, p, &t);
    c.values.push_back(rotatedVectors(c.msgs[0], t));
    if (t >= 0 && s->kind == CK_NUM && (c.msgs[0].fields[static_cast<size_t>(t)].kind == 'L') != isBigShape(shape)) return c;
    if (kv.count("zz")) { if (kv["zz"] != "c") return c; c.msgs[0].noDst = true; }
    if (kv.count("extra")) {
      // extra=<name>:<why>: a further condition in the same file that guards nothing; name "a" sorts before "k", "z"
      // behind it; why = nomsg (message missing) | x (field missing) | ok (resolvable)
      string e = kv["extra"];
      size_t colon = e.find(':');
      if (colon == string::npos) return c;
      Part x = p;
      x.condName = x.defName = e.substr(0, colon);
      string why = e.substr(colon + 1);
      x.msg = 0;
      if (why == "nomsg") { x.msg = -1; x.fieldRef = ""; }
      else if (why == "x") x.fieldRef = "zz";
      else if (why != "ok") return c;
      c.extras.push_back(x);
    }
    if (c.family == "alt") {
      // complementary alternative: numeric values not in the first list
      if (s->kind != CK_NUM) return c;
      c.alt = true;
      c.altPart = p;
      c.altPart.condName = c.altPart.defName = "k2";
      c.altPart.numTrue.clear();
      string t2;
      for (unsigned v : NUMS) if (!p.numTrue.count(v)) {
        c.altPart.numTrue.insert(v);
        char b[16];
        snprintf(b, sizeof(b), "%s%u", t2.empty() ? "" : ";", v);
        t2 += b;
      }
      c.altPart.valueText = t2;
    }
    c.valid = true;
  } else if (c.family == "and") {
    // var=same: two numeric fields of one message; var=two: one field of each of two messages;
    // var=mixed: numeric field of one message and string field of another
    string var = kv["var"];
    const Shape* s1 = findShape(kv["s1"]);
    const Shape* s2 = findShape(kv["s2"]);
    if (!s1 || !s2) return c;
    Part p1, p2;
    p1.condName = p1.defName = "k";
    p2.condName = p2.defName = "k2";
    applyShape(&p1, *s1, false);
    applyShape(&p2, *s2, false);
    if (var == "same" || var == "samei" || var == "samez") {
      // samei: a filler between the two judged fields (its byte takes a value that satisfies neither part where possible)
      // samez: the message has no destination address, both conditions supply ZZ (the second finds the existing clone)
      bool filler = var == "samei";
      c.msgs.push_back(makeMsg("ref", "b5090d0000", string(1, s1->kind == CK_STR ? 'S' : 'N') + (filler ? "i" : "") + string(1, s2->kind == CK_STR ? 'S' : 'N')));
      size_t i2 = filler ? 2 : 1;
      p1.msg = 0; p2.msg = 0;
      p1.fieldRef = "f0"; p2.fieldRef = filler ? "f2" : "f1";
      // all four combinations of (satisfying, not satisfying) for the two fields
      vector<ValueVector> vv;
      for (int a = 0; a < 2; a++) for (int b = 0; b < 2; b++) {
        ValueVector v(i2 + 1);
        // alphabet index 0 satisfies every shape that lists value 1 / "ab"; pick per shape
        auto pick = [&](const Part& p, bool sat) {
          Value x;
          if (p.kind == CK_STR) { for (const char* t : STRS) if ((p.strTrue.count(t) > 0) == sat) { x.str = t; break; } }
          else { for (unsigned t : NUMS) if ((p.numTrue.count(t) > 0) == sat) { x.num = t; break; } }
          return x;
        };
        v[0] = pick(p1, a == 0);
        v[i2] = pick(p2, b == 0);
        if (filler) v[1].num = p2.kind == CK_NUM ? pick(p2, b != 0).num : 4;  // opposite verdict of the field behind it
        vv.push_back(v);
      }
      c.values.push_back(vv);
      if (var == "samez") c.msgs[0].noDst = true;
    } else if (var == "two" || var == "twoi" || var == "twoz") {
      // twoi: both referenced messages start with a 2-byte filler
      bool filler = var == "twoi";
      size_t fi = filler ? 1 : 0;
      c.msgs.push_back(makeMsg("ref", "b5090d0000", string(filler ? "j" : "") + string(1, s1->kind == CK_STR ? 'S' : 'N')));
      c.msgs.push_back(makeMsg("ref2", "b5090d0001", string(filler ? "j" : "") + string(1, s2->kind == CK_STR ? 'S' : 'N')));
      if (var == "twoz") c.msgs[0].noDst = c.msgs[1].noDst = true;
      p1.msg = 0; p2.msg = 1;
      p1.fieldRef = p1.kind == CK_SEEN ? "" : (filler ? "f1" : "f0");
      p2.fieldRef = p2.kind == CK_SEEN ? "" : (filler ? "f1" : "f0");
      c.values.push_back(rotatedVectors(c.msgs[0], static_cast<int>(fi)));
      c.values.push_back(rotatedVectors(c.msgs[1], static_cast<int>(fi)));
      // two values per message are enough here (one satisfying, one not): keep the search small
      for (size_t m = 0; m < 2; m++) {
        const Part& p = m == 0 ? p1 : p2;
        vector<ValueVector> keep;
        bool haveT = false, haveF = false;
        for (const ValueVector& v : c.values[m]) {
          if (p.kind == CK_SEEN) { if (keep.size() < 2) keep.push_back(v); continue; }
          bool sat = p.kind == CK_STR ? p.strTrue.count(v[fi].str) > 0 : p.numTrue.count(v[fi].num) > 0;
          if (sat && !haveT) { keep.push_back(v); haveT = true; }
          if (!sat && !haveF) { keep.push_back(v); haveF = true; }
        }
        c.values[m] = keep;
      }
    } else {
      return c;
    }
    c.parts.push_back(p1);
    c.parts.push_back(p2);
    c.valid = true;
  } else if (c.family == "derived2") {
    // two definitions of g guarded by conditions derived on the fly from ONE base condition (the usual ebusd pattern):
    // var=two: [k<A>] and [k<B>] with different value lists; var=same: the same derived condition guards both
    // definitions (second use = cache hit); var=base: the base condition itself guards the first definition and a
    // condition derived from it the second
    string var = kv["var"], base = kv["base"];
    const Shape* sa = findShape(kv["sa"]);
    const Shape* sb = findShape(kv["sb"]);
    if (!validLayout(lay, part) || !sa || !sb || sa->kind != CK_NUM || sb->kind != CK_NUM) return c;
    if (base != "list" && base != "seen") return c;
    if (var != "two" && var != "same" && var != "base") return c;
    if (var == "base" && base != "list") return c;
    c.msgs.push_back(makeMsg("ref", "b5090d0000", lay, part[0]));
    Part pa, pb;
    pa.msg = pb.msg = 0;
    pa.defName = pb.defName = "k";
    applyShape(&pa, *sa, false);
    applyShape(&pb, var == "same" ? *sa : *sb, false);
    if (!applyRef(&c, &pa, ref) || !applyRef(&c, &pb, ref)) return c;
    auto derivedName = [](const string& v) { return (v[0] == '<' || v[0] == '>') ? "k" + v : "k=" + v; };
    string baseText = var == "base" ? pa.valueText : (base == "list" ? string("2;4") : string());
    if (var == "base") {
      pa.condName = "k";
    } else {
      pa.derived = true;
      pa.condName = derivedName(pa.valueText);
      pa.baseValueText = baseText;
    }
    pb.derived = true;
    pb.condName = derivedName(pb.valueText);
    pb.baseValueText = baseText;
    c.parts.push_back(pa);
    c.alt = true;
    c.altPart = pb;
    int t = -1;
    refResolvable(c, pa, &t);
    c.values.push_back(rotatedVectors(c.msgs[0], t));
    c.valid = true;
  } else if (c.family == "derived") {
    // base=list: "*[k],c,ref,,f,,1;3"; base=seen: "*[k],c,ref,,f" ; the guard uses [k<op><values>]
    const Shape* s = findShape(shape);
    string base = kv["base"];
    if (!s || s->kind == CK_SEEN || !validLayout(lay, part)) return c;
    c.msgs.push_back(makeMsg("ref", "b5090d0000", lay, part[0]));
    Part p;
    p.msg = 0;
    p.derived = true;
    p.defName = "k";
    applyShape(&p, *s, false);
    if (!applyRef(&c, &p, ref)) return c;
    string v = p.valueText;
    // on-the-fly syntax: [k=values], [k<n], [k>n], [k<=n], [k>=n]
    if (v[0] == '<' || v[0] == '>') p.condName = "k" + v; else p.condName = "k=" + v;
    p.baseValueText = base == "list" ? "2;4" : "";
    if (base != "list" && base != "seen") return c;
    c.parts.push_back(p);
    int t = -1;
    refResolvable(c, p, &t);
    c.values.push_back(rotatedVectors(c.msgs[0], t));
    if (kv.count("zz")) { if (kv["zz"] != "c") return c; c.msgs[0].noDst = true; }
    c.valid = true;
  } else if (c.family == "scan") {
    const Shape* s = findShape(shape);
    if (!s) return c;
    c.msgs.push_back(makeScanMsg());
    Part p;
    p.condName = p.defName = "k";
    p.msg = 0;
    applyShape(&p, *s, true);
    if (!applyRef(&c, &p, ref)) return c;
    c.parts.push_back(p);
    int t = -1;
    refResolvable(c, p, &t);
    c.values.push_back(rotatedVectors(c.msgs[0], t));
    c.valid = true;
  }
  return c;
}

// field class of a part for the signature
inline string fieldClass(const Config& c, const Part& p) {
  if (p.msg < 0) return "nomsg";
  const MsgDef& m = c.msgs[static_cast<size_t>(p.msg)];
  string n = m.realFields() > 1 ? "-multi" : "-single";
  if (m.hasFiller()) n += "-ign";                 // layout with ignored filler bytes
  if (m.part != 's') n += string("@") + m.part;   // value in the master part (active read / passive write)
  if (m.noDst) n += "-clone";                     // the condition supplies the destination address of the message
  if (p.fieldRef.empty()) return "unnamed" + n;
  for (const FieldDef& f : m.fields) {
    if (!f.ignored() && f.name == p.fieldRef) {
      if (p.kind == CK_SEEN) return "named" + n;
      return (f.numeric() == (p.kind == CK_NUM) ? "named" : "wrongkind") + n;
    }
  }
  return "missing" + n;
}
// kind of the guard for the signature: the condition type decides the code path (numeric / string
// comparison, "seen", AND of several); shape and family (derived, scan, alternative) stay in the case string
inline string condClass(const Config& c) {
  if (c.family == "and") return "combined";
  switch (c.parts[0].kind) {
    case CK_NUM: return "numeric";
    case CK_STR: return "string";
    default: return "seen";
  }
}

// ---- enumeration ------------------------------------------------------------------------------------
inline vector<string> enumerate(bool thorough) {
  vector<string> out;
  vector<string> layouts;
  const char kinds[2] = {'N', 'S'};
  for (int n = 1; n <= 3; n++) {
    int cnt = 1 << n;
    for (int x = 0; x < cnt; x++) {
      string l;
      for (int i = 0; i < n; i++) l += kinds[(x >> i) & 1];
      layouts.push_back(l);
    }
  }
  if (thorough) {
    // two-byte numeric fields
    for (const char* l : {"W", "WW", "WS", "SW", "NW", "WN", "SWS", "WNS", "NSW"}) layouts.push_back(l);
  }
  for (const string& lay : layouts) {
    for (const Shape& s : shapes()) {
      vector<string> refs;
      if (s.kind == CK_SEEN) {
        refs = {"u"};
      } else {
        for (size_t i = 0; i < lay.size(); i++) { char b[8]; snprintf(b, sizeof(b), "n%zu", i); refs.push_back(b); }
        if (unnamedFixed(lay, s.kind == CK_NUM)) refs.push_back("u");
        refs.push_back("x");
      }
      for (const string& r : refs) out.push_back("fam=simple;lay=" + lay + ";shape=" + s.name + ";ref=" + r);
    }
  }
  // layouts with ignored filler bytes before / between / after the fields, and fields in the master part
  {
    struct FL { const char* lay; const char* part; };
    vector<FL> fls = {
      {"iN", "s"}, {"jN", "s"}, {"iS", "s"}, {"jS", "s"}, {"Ni", "s"}, {"Sj", "s"}, {"NiN", "s"}, {"NjS", "s"}, {"SiN", "s"},
      {"iNS", "s"}, {"jSN", "s"},
      {"N", "m"}, {"NS", "m"}, {"iN", "m"}, {"jN", "m"}, {"jS", "m"}, {"NiN", "m"},
      {"N", "u"}, {"iN", "u"}, {"jN", "u"}, {"jS", "u"}, {"NiN", "u"}, {"Ni", "u"},
    };
    if (thorough) {
      for (FL f : vector<FL>{{"iW", "s"}, {"jW", "s"}, {"WiN", "s"}, {"NjW", "s"}, {"Wi", "s"}, {"iNiN", "s"}, {"jNjS", "s"}, {"ijN", "s"},
                             {"jW", "m"}, {"SiN", "m"}, {"iNS", "m"}, {"jW", "u"}, {"SjN", "u"}, {"iSN", "u"}}) fls.push_back(f);
    }
    for (const FL& f : fls) {
      string lay = f.lay;
      size_t first = 0;
      while (lay[first] == 'i' || lay[first] == 'j') first++;
      for (const Shape& s : shapes()) {
        vector<string> refs;
        if (s.kind == CK_SEEN) {
          refs = {"u"};
        } else {
          for (size_t i = 0; i < lay.size(); i++) if (lay[i] != 'i' && lay[i] != 'j') { char b[8]; snprintf(b, sizeof(b), "n%zu", i); refs.push_back(b); }
          if (unnamedFixed(lay, s.kind == CK_NUM)) refs.push_back("u");
          refs.push_back("x");
        }
        for (const string& r : refs) out.push_back("fam=simple;lay=" + lay + ";part=" + f.part + ";shape=" + s.name + ";ref=" + r);
      }
    }
    for (const char* s : {"list", "lt"}) for (FL f : vector<FL>{{"iN", "s"}, {"jN", "m"}}) out.push_back(string("fam=alt;lay=") + f.lay + ";part=" + f.part + ";shape=" + s + ";ref=n1");
    for (const char* base : {"list", "seen"}) for (const char* s : {"list", "range", "lt", "ge"}) for (FL f : vector<FL>{{"iN", "s"}, {"NjN", "s"}, {"jN", "u"}}) {
      string lay = f.lay;
      char b[8];
      snprintf(b, sizeof(b), "n%zu", lay.size() - 1);
      out.push_back(string("fam=derived;base=") + base + ";lay=" + lay + ";part=" + f.part + ";shape=" + s + ";ref=" + b);
    }
    for (const char* s : {"string", "strlist"}) out.push_back(string("fam=derived;base=seen;lay=jS;shape=") + s + ";ref=n1");
    for (const char* var : {"samei", "twoi"}) for (const char* s1 : {"list", "ge", "string"}) for (const char* s2 : {"range", "lt", "strlist"}) {
      out.push_back(string("fam=and;var=") + var + ";s1=" + s1 + ";s2=" + s2);
    }
  }
  // referenced message defined without destination address, ZZ supplied by the condition (per-address clone)
  {
    for (const char* l : {"N", "S", "NS", "jN", "SN"}) {
      string lay = l;
      if (!thorough && lay == "SN") continue;
      size_t first = 0;
      while (lay[first] == 'i' || lay[first] == 'j') first++;
      for (const Shape& s : shapes()) {
        vector<string> refs;
        if (s.kind == CK_SEEN) {
          refs = {"u"};
        } else {
          for (size_t i = 0; i < lay.size(); i++) if (lay[i] != 'i' && lay[i] != 'j') { char b[8]; snprintf(b, sizeof(b), "n%zu", i); refs.push_back(b); }
          if (unnamedFixed(lay, s.kind == CK_NUM)) refs.push_back("u");
          refs.push_back("x");
        }
        for (const string& r : refs) out.push_back("fam=simple;lay=" + lay + ";zz=c;shape=" + s.name + ";ref=" + r);
      }
    }
    for (const char* s : {"list", "lt"}) out.push_back(string("fam=alt;lay=N;zz=c;shape=") + s + ";ref=n0");
    for (const char* base : {"list", "seen"}) for (const char* s : {"list", "range", "lt", "ge"}) {
      out.push_back(string("fam=derived;base=") + base + ";lay=N;zz=c;shape=" + s + ";ref=n0");
      out.push_back(string("fam=derived;base=") + base + ";lay=SN;zz=c;shape=" + s + ";ref=n1");
    }
    for (const char* s : {"string", "strlist"}) out.push_back(string("fam=derived;base=seen;lay=S;zz=c;shape=") + s + ";ref=n0");
    for (const char* var : {"samez", "twoz"}) for (const char* s1 : {"list", "ge", "string"}) for (const char* s2 : {"range", "lt", "strlist"}) {
      out.push_back(string("fam=and;var=") + var + ";s1=" + s1 + ";s2=" + s2);
    }
    out.push_back("fam=and;var=twoz;s1=seen;s2=lt");
  }
  // several conditions derived from one base; one unresolvable condition among resolvable ones; 4-byte values
  {
    for (const char* var : {"two", "same", "base"}) for (const char* base : {"list", "seen"}) {
      if (string(var) == "base" && string(base) != "list") continue;
      struct SP { const char* a; const char* b; };
      for (SP sp : vector<SP>{{"list", "range"}, {"lt", "ge"}, {"le", "list"}}) {
        for (const char* lr : {"lay=N;ref=n0", "lay=SN;ref=n1", "lay=jN;ref=n1"}) {
          if (!thorough && string(lr) != "lay=N;ref=n0" && string(sp.a) != "list") continue;
          out.push_back(string("fam=derived2;var=") + var + ";base=" + base + ";" + lr + ";sa=" + sp.a + ";sb=" + sp.b);
        }
      }
    }
    for (const char* extra : {"a:nomsg", "z:nomsg", "a:x", "z:x", "a:ok", "z:ok"}) {
      for (const char* s : {"list", "ge", "string", "seen"}) {
        bool str = string(s) == "string";
        for (const char* lay : {"N", "S", "NS"}) {
          string l = lay;
          if ((l[0] == 'S') != str && string(s) != "seen") continue;
          if (string(s) == "seen" && (string(extra) == "a:x" || string(extra) == "z:x")) continue;  // "seen" names no field
          if (!thorough && l == "NS") continue;
          out.push_back(string("fam=simple;lay=") + l + ";shape=" + s + ";ref=" + (string(s) == "seen" ? "u" : "n0") + ";extra=" + extra);
        }
      }
    }
    vector<string> bl = {"lay=L", "lay=jL"};
    if (thorough) { bl.push_back("lay=NL"); bl.push_back("lay=L;part=m"); bl.push_back("lay=iL;part=u"); }
    for (const string& l : bl) {
      string lay = l.substr(4, l.find(';') == string::npos ? string::npos : l.find(';') - 4);
      size_t first = 0;
      while (lay[first] == 'i' || lay[first] == 'j') first++;
      size_t li = lay.find('L');
      for (const Shape& s : bigShapes()) {
        char b[8];
        snprintf(b, sizeof(b), "n%zu", li);
        out.push_back("fam=simple;" + l + ";shape=" + s.name + ";ref=" + b);
        if (first == li) out.push_back("fam=simple;" + l + ";shape=" + s.name + ";ref=u");
      }
      out.push_back("fam=simple;" + l + ";shape=bge;ref=x");
    }
    for (const char* s : {"bge", "bgt", "brange"}) out.push_back(string("fam=derived;base=seen;lay=L;shape=") + s + ";ref=n0");
  }
  for (const char* s : {"list", "string", "seen"}) out.push_back(string("fam=simple;lay=N;shape=") + s + ";ref=nomsg");
  // two alternative definitions guarded by complementary conditions
  for (const char* s : {"list", "range", "lt", "ge"}) for (const char* lay : {"N", "NS", "SN"}) {
    out.push_back(string("fam=alt;lay=") + lay + ";shape=" + s + ";ref=n" + (string(lay) == "SN" ? "1" : "0"));
  }
  // combined
  for (const char* var : {"same", "two"}) {
    for (const char* s1 : {"list", "ge", "string", "seen"}) for (const char* s2 : {"range", "lt", "strlist", "seen"}) {
      if (string(var) == "same" && (string(s1) == "seen" || string(s2) == "seen")) continue;
      out.push_back(string("fam=and;var=") + var + ";s1=" + s1 + ";s2=" + s2);
    }
  }
  // derived on the fly
  for (const char* base : {"list", "seen"}) for (const char* s : {"list", "range", "lt", "gt", "le", "ge", "mixed", "nested", "outer", "string", "strlist"}) {
    for (const char* lay : {"N", "NS", "SN", "S", "NN"}) {
      bool str = string(s) == "string" || string(s) == "strlist";
      string l = lay;
      // the base condition with a numeric value list needs a numeric field; derive on the field of the wanted kind
      for (size_t i = 0; i < l.size(); i++) {
        bool fieldStr = l[i] == 'S';
        if (fieldStr != str) continue;
        if (string(base) == "list" && str) continue;  // a numeric base list on a string field is not a valid definition
        char b[8];
        snprintf(b, sizeof(b), "n%zu", i);
        out.push_back(string("fam=derived;base=") + base + ";lay=" + l + ";shape=" + s + ";ref=" + b);
      }
      if ((l[0] == 'S') == str && !(string(base) == "list" && str)) out.push_back(string("fam=derived;base=") + base + ";lay=" + l + ";shape=" + s + ";ref=u");
    }
  }
  // scan conditions (identification message of address 08: MF numeric, ID string, SW/HW numeric)
  for (const char* s : {"list", "range", "lt", "gt", "le", "ge", "mixed", "nested"}) for (const char* r : {"n2", "n3", "n0", "u", "x", "n1"}) out.push_back(string("fam=scan;shape=") + s + ";ref=" + r);
  for (const char* s : {"string", "strlist"}) for (const char* r : {"n1", "x", "n2"}) out.push_back(string("fam=scan;shape=") + s + ";ref=" + r);
  out.push_back("fam=scan;shape=seen;ref=u");
  return out;
}

}  // namespace c13

#endif  // VERIF_C13_CONFIG_H_
