#!/usr/bin/env python3
"""Content-hashed build of the ebusd sources (straight from /repo/src, current working
tree) and of the verification harnesses.

Objects live in /verif/build/obj/<variant>/<name>-<key>.o where key = sha1(source text,
all headers under /repo/src, flags).  A changed .cpp rebuilds one object, a changed header
rebuilds all.  Harness executables are keyed by their own sources, the common headers, the
object keys they link and their flags.  An exclusive flock serialises concurrent builders.
"""
import fcntl
import hashlib
import os
import subprocess
import sys
from concurrent.futures import ThreadPoolExecutor

VERIF = os.path.dirname(os.path.dirname(os.path.abspath(__file__)))
REPO = os.environ.get("VERIF_REPO", "/repo")
SRC = os.path.join(REPO, "src")
BUILD = os.path.join(VERIF, "build")
if os.path.realpath(REPO) != "/repo":
    # checks run against a scratch tree (seeded change, proposed fix) keep their own objects and binaries
    BUILD = os.path.join(VERIF, "build", "alt-" + hashlib.sha1(os.path.realpath(REPO).encode()).hexdigest()[:10])
COMMON = os.path.join(VERIF, "engines", "common")
JOBS = int(os.environ.get("VERIF_JOBS", "16"))

CORE = [
    "lib/ebus/data.cpp", "lib/ebus/datatype.cpp", "lib/ebus/device_trans.cpp",
    "lib/ebus/filereader.cpp", "lib/ebus/message.cpp", "lib/ebus/protocol.cpp",
    "lib/ebus/protocol_direct.cpp", "lib/ebus/result.cpp", "lib/ebus/stringhelper.cpp",
    "lib/ebus/symbol.cpp", "lib/ebus/transport.cpp",
    "lib/ebus/contrib/contrib.cpp", "lib/ebus/contrib/tem.cpp",
    "lib/utils/clock.cpp", "lib/utils/thread.cpp", "lib/utils/log.cpp",
    "lib/utils/rotatefile.cpp", "lib/utils/tcpsocket.cpp",
]
FULL = CORE + [
    "ebusd/bushandler.cpp", "ebusd/datahandler.cpp", "ebusd/knxhandler.cpp",
    "ebusd/main_args.cpp", "ebusd/mainloop.cpp", "ebusd/mqttclient.cpp",
    "ebusd/mqttclient_mosquitto.cpp", "ebusd/mqtthandler.cpp", "ebusd/network.cpp",
    "ebusd/request.cpp", "ebusd/scan.cpp", "lib/knx/knx.cpp",
    "lib/utils/arg.cpp", "lib/utils/httpclient.cpp",
]
LIBSETS = {"core": CORE, "full": FULL}
FULL_LIBS = ["-lmosquitto", "-lssl", "-lcrypto"]

BASE_DEFS = ["-DHAVE_CONFIG_H", "-D_GNU_SOURCE", "-I" + COMMON + "/cfg", "-I" + SRC,
             "-I" + SRC + "/lib/ebus", "-I" + SRC + "/lib/utils", "-I" + SRC + "/ebusd"]

RENAME_H = os.path.join(VERIF, "engines", "schedmc", "vp_pthread_rename.h")
SAN = ["-fsanitize=address,undefined", "-fno-sanitize-recover=undefined"]
VARIANTS = {
    # compiler, flags for ebusd objects and harness, extra link flags, flags for ebusd objects only
    "plain": ("g++", ["-std=c++11", "-O2", "-g", "-fno-omit-frame-pointer"], [], []),
    "san": ("g++", ["-std=c++11", "-O1", "-g", "-fno-omit-frame-pointer"] + SAN, ["-fsanitize=address,undefined"], []),
    "tsan": ("clang++", ["-std=c++11", "-O1", "-g", "-fsanitize=thread"], ["-fsanitize=thread"], []),
    "sched": ("g++", ["-std=c++11", "-O1", "-g", "-fno-omit-frame-pointer"], [], ["-include", RENAME_H]),
    "schedsan": ("g++", ["-std=c++11", "-O1", "-g", "-fno-omit-frame-pointer"] + SAN, ["-fsanitize=address,undefined"],
                 ["-include", RENAME_H]),
}


def _sha(*parts):
    h = hashlib.sha1()
    for p in parts:
        if isinstance(p, str):
            p = p.encode()
        h.update(p)
        h.update(b"\0")
    return h.hexdigest()[:16]


def _read(path):
    with open(path, "rb") as f:
        return f.read()


def headers_hash():
    h = hashlib.sha1()
    for root, dirs, files in sorted(os.walk(SRC)):
        dirs.sort()
        for fn in sorted(files):
            if fn.endswith(".h"):
                p = os.path.join(root, fn)
                h.update(p.encode())
                h.update(_read(p))
    h.update(_read(os.path.join(COMMON, "cfg", "config.h")))
    return h.hexdigest()[:16]


def tree_hash():
    """hash over everything that can influence a check (for evidence)"""
    h = hashlib.sha1()
    for root, dirs, files in sorted(os.walk(SRC)):
        dirs.sort()
        for fn in sorted(files):
            if fn.endswith((".h", ".cpp")):
                p = os.path.join(root, fn)
                h.update(p.encode())
                h.update(_read(p))
    return h.hexdigest()[:16]


class Lock:
    def __enter__(self):
        os.makedirs(BUILD, exist_ok=True)
        self.f = open(os.path.join(BUILD, ".lock"), "w")
        fcntl.flock(self.f, fcntl.LOCK_EX)
        return self

    def __exit__(self, *a):
        fcntl.flock(self.f, fcntl.LOCK_UN)
        self.f.close()


def _run(cmd):
    r = subprocess.run(cmd, stdout=subprocess.PIPE, stderr=subprocess.STDOUT, text=True)
    if r.returncode != 0:
        sys.stderr.write("BUILD FAILED: %s\n%s\n" % (" ".join(cmd), r.stdout[-6000:]))
        raise SystemExit(3)
    return r.stdout


def _prune(directory, prefix, keep):
    for fn in os.listdir(directory):
        if fn.startswith(prefix + "-") and fn != keep:
            try:
                os.unlink(os.path.join(directory, fn))
            except OSError:
                pass


def build_objects(variant, libset, extra_flags=()):
    """returns (list of object paths, combined key)"""
    cxx, flags, _, oflags = VARIANTS[variant]
    flags = list(flags) + list(oflags) + list(extra_flags)
    hh = headers_hash()
    extra_dep = b""
    if oflags:
        extra_dep = _read(RENAME_H)
    vdir = variant if not extra_flags else variant + "-" + _sha(*extra_flags)[:6]
    odir = os.path.join(BUILD, "obj", vdir)
    os.makedirs(odir, exist_ok=True)
    todo, objs, keys = [], [], []
    for rel in LIBSETS[libset]:
        src = os.path.join(SRC, rel)
        key = _sha(_read(src), hh, cxx, " ".join(flags), extra_dep)
        name = rel.replace("/", "_")[:-4]
        obj = os.path.join(odir, "%s-%s.o" % (name, key))
        objs.append(obj)
        keys.append(key)
        if not os.path.exists(obj):
            todo.append((src, obj, name))

    def comp(t):
        src, obj, name = t
        tmp = obj + ".tmp%d" % os.getpid()
        _run([cxx] + flags + BASE_DEFS + ["-w", "-c", src, "-o", tmp])
        os.rename(tmp, obj)
        _prune(odir, name, os.path.basename(obj))

    if todo:
        with ThreadPoolExecutor(JOBS) as ex:
            list(ex.map(comp, todo))
    return objs, _sha(*keys)


def build_harness(name, sources, variant="plain", libset="core", flags=(), libs=(),
                  obj_flags=(), std="-std=c++17", deps=()):
    """compile+link a harness; returns the executable path"""
    with Lock():
        objs, okey = build_objects(variant, libset, obj_flags)
        cxx, vflags, lflags, _ = VARIANTS[variant]
        vflags = [f for f in vflags if not f.startswith("-std=")]
        srcs = [s if os.path.isabs(s) else os.path.join(VERIF, s) for s in sources]
        h = [okey, cxx, " ".join(vflags), " ".join(flags), " ".join(libs), std]
        for s in srcs:
            h.append(_read(s))
        for d in deps:
            h.append(_read(d if os.path.isabs(d) else os.path.join(VERIF, d)))
        for fn in sorted(os.listdir(COMMON)):
            if fn.endswith((".h", ".cpp")):
                h.append(_read(os.path.join(COMMON, fn)))
        key = _sha(*h)
        bdir = os.path.join(BUILD, "bin")
        os.makedirs(bdir, exist_ok=True)
        exe = os.path.join(bdir, "%s-%s-%s" % (name, variant, key))
        if os.path.exists(exe):
            return exe
        hobjs = []

        def comp(s):
            o = os.path.join(bdir, "%s-%s-%s-%s.ho" % (name, variant, key, os.path.basename(s)))
            _run([cxx, std] + vflags + list(flags) + BASE_DEFS +
                 ["-I" + COMMON, "-fno-access-control", "-w", "-c", s, "-o", o])
            return o

        with ThreadPoolExecutor(JOBS) as ex:
            hobjs = list(ex.map(comp, srcs))
        link_libs = list(libs) + (FULL_LIBS if libset == "full" else []) + ["-lpthread"]
        tmp = exe + ".tmp"
        _run([cxx] + lflags + hobjs + objs + link_libs + ["-o", tmp])
        os.rename(tmp, exe)
        for o in hobjs:
            os.unlink(o)
        _prune(bdir, "%s-%s" % (name, variant), os.path.basename(exe))
        return exe


if __name__ == "__main__":
    # setup: prebuild the variants named on the command line
    for arg in sys.argv[1:]:
        variant, libset = arg.split(":")
        with Lock():
            objs, key = build_objects(variant, libset)
        print("built %s/%s: %d objects key=%s" % (variant, libset, len(objs), key))
