"""Check definitions of engine msgmc, part A: C08 (lookup), C09 (build/store/decode), C19 (round trip)."""

CHECKS = {}
ENGINES = [
    {"name": "msgmc", "path": "engines/msgmc", "serves_properties": ["C08", "C09", "C19"],
     "kind_free_text": "explicit-state / bounded-exhaustive exploration of the real MessageMap, Message, ChainedMessage "
                       "and FileReader objects (load, find, prepare, store, decode, dump) against reference models "
                       "written from the property statements"},
]

CHECKS["C08"] = {
    "engine": "msgmc", "design_ref": "5/C08",
    "level": "model_checking",
    "level_text": "the state space 'set of loaded definitions + order in which they were added' is enumerated completely "
                  "up to the stated subset size over a universe of 40 definitions constructed to collide in the 64-bit "
                  "key (shared prefixes, equal XOR folds, wildcard/specific source and destination, all directions, "
                  "chained IDs); in every state every telegram derived from the universe is looked up on the real "
                  "MessageMap::find with all 16 flag combinations and compared with a linear-scan reference",
    "level_note": "bounded: at most 3 (thorough 4) definitions per map, one PBSB, two simple conditions on one referenced message (condition evaluation itself is C13); "
                  "trusts the reference matcher (self-tested with hand traces at every start) and the loader's own "
                  "duplicate rejection as the definition of 'loaded'",
    "technique": "explicit-state exploration of the real MessageMap over all ordered definition subsets with a linear-scan reference matcher",
    "rule": "state = ordered list of added definitions (every subset of the universe up to the size bound in every "
            "insertion order, built from scratch through the real CSV loader); per state every telegram derived from "
            "the universe by keeping / truncating / extending by one byte / mutating one ID or command byte, from 3 "
            "source classes to 4 destination classes, with each of the 16 combinations of "
            "anyDestination/withRead/withWrite/withPassive. Oracle (three-valued): the result must be a loaded "
            "definition matching PBSB, ID, direction, passive source restriction and destination; if a loaded "
            "definition surely matches, a result is required and its ID length must not be shorter than the longest "
            "sure match. Undecided: source of active definitions, wildcard-destination definitions when "
            "anyDestination=false and vice versa. states = ordered subsets, transitions = loader calls + lookups, "
            "distinct = (state, telegram) pairs with two or more candidate definitions (recorded for states of size<=3). "
            "Availability pass: 7 conditional definitions ([isA]/[isB] on a message of another PBSB; same "
            "direction/QQ/ZZ/PBSB/ID as each other or as unconditional ones) with 12 unconditional partners, every "
            "ordered subset up to the size bound that contains a conditional one, each in 5 environments (condition "
            "message never received / value 1 / 2 / 3 with onlyAvailable=true, value 3 with onlyAvailable=false): "
            "with onlyAvailable=true only definitions whose condition holds count as matching and an unavailable "
            "result is a violation; isAvailable() of every loaded definition is first compared with the environment "
            "model (a disagreement caps the run instead of judging the state). Chain-shape pass: 6 chained definitions "
            "with 3-4 parts whose common prefix differs from the prefix shared by first and last part (middle part "
            "deviating first, last deviating first, first differing from all others, nothing in common, 5-byte IDs, "
            "wildcard destination), loaded through the CSV path, with the same 12 partners: every ordered subset up "
            "to the size bound that contains one of them. Telegram derivation additionally recombines, for every "
            "chained definition, the head of one part ID with the tail of another (every split point). Edit pass: every "
            "ordered subset of size<=2 (thorough 3) of 13 definitions (fold twins, conditional twins, chained and "
            "direction neighbours) followed by one MessageMap::remove of a member or one add(replace=true) of any of "
            "the 13; what is loaded afterwards is read from the name index; set semantics: a remove deletes exactly "
            "that definition, a replacing add may only delete definitions with the same direction, destination, "
            "command, passive source and a common complete ID (and not a twin guarded by another condition); then "
            "the telegram sweep. Identification pass: the built-in 07 04 messages and getScanMessage(08/15) in every "
            "order with two ordinary definitions, telegrams 07 04 with and without data: the built-in generic/"
            "broadcast messages may be returned but are never required; when a definition of the destination group "
            "asked for (anyDestination) matches at least as long, the other group must not be returned. Universe pin: "
            "every CSV row of the universe must load alone (C08/universe-shrunk).",
    "assumptions": [
        "definitions are 'loaded' when the loader accepted them (duplicates rejected by MessageMap::add are not part of the state)",
        "condition evaluation itself is C13's subject: C08 uses two simple numeric conditions, sets the referenced value once per state under a virtual clock and checks isAvailable() against its model before judging",
        "the largest subset size of a tier (quick 3, thorough 4) uses the telegrams derived from the subset's members only; thorough size 4 draws from a 28-definition core of the universe (all 40: harness option --corelast 0, about 2600 CPU s)",
    ],
    "runs": [{
        "harness": "c08_find", "sources": ["engines/msgmc/c08_find.cpp"], "deps": ["engines/msgmc/c08_universe.h"],
        "variant": "plain", "libset": "core",
        "quick": {"parts": 16, "deadline": 240,
                  "bounds": "40 unconditional definitions: all ordered subsets of size<=2 x all telegrams, size 3 x member-derived telegrams; 7 conditional + 12 partner definitions: ordered subsets of size<=3 containing a conditional one x 5 environments; 6 multi-part chained + 12 partner definitions: ordered subsets of size<=3 containing a multi-part chain; edit pass: subsets of size<=2 of 13 definitions x (remove | replacing add) ; identification pass: 65 states; 16 flag combinations"},
        "thorough": {"parts": 16, "deadline": 840,
                     "bounds": "40 definitions; all ordered subsets of size<=3 x all telegrams; size 4 over the 28-definition core x member-derived telegrams; 7 conditional + 12 partner definitions: ordered subsets of size<=4 containing a conditional one x 5 environments; 6 multi-part chained + 12 partner definitions: ordered subsets of size<=4 containing a multi-part chain; edit pass: subsets of size<=3 of 13 definitions x (remove | replacing add); identification pass: 65 states; 16 flag combinations"},
    }],
}

CHECKS["C09"] = {
    "engine": "msgmc", "design_ref": "5/C09",
    "level": "model_checking",
    "level_text": "every definition of a bounded grammar (read/write, 0-3 fields of 9 kinds over master and slave part, "
                  "templates and a defaults row, 1-3 / wildcard / master / broadcast destinations, chained IDs with "
                  "explicit and implicit lengths) is loaded by the real loader and driven through the real "
                  "prepareMaster -> find -> storeLastData -> decodeLastData with every input combination of the value "
                  "domains; for chained messages the operation histories 'parts arrive in every order with every gap "
                  "pattern from {0,1,16*parts} s, followed by a second round with other values and a third, much later "
                  "round observed after every part' are enumerated "
                  "completely under a virtual clock",
    "level_note": "bounded: two values per field, at most 3 fields, 2-3 chain parts; trusts the per-kind reference "
                  "codec table (text <-> bytes written from the type definitions) and the virtual time() defined in "
                  "the harness; constants are excluded (no supplied value to return)",
    "technique": "bounded-exhaustive exploration of the real load/prepare/find/store/decode API over a definition grammar with arrival-history enumeration for chained messages",
    "rule": "definition = shape x field layout; case = definition x value choice (2 per field) [x arrival permutation x "
            "gap pattern]. Inputs are valid by construction, so prepareMaster must succeed for every part; checked: "
            "header QQ ZZ PB SB (ZZ = own destination, or the destination given to prepareMaster), NN == following bytes, NN <= MAX_POS, ID and master data bytes, "
            "find(telegram) == that definition, decode(store(telegram, answer)) == supplied and received values "
            "(compared as name=value multiset), and every single field decoded alone by index (master part first) "
            "and by name (+ index among equal names) gives exactly that field's value; a loaded plain definition "
            "must not have more than MAX_POS slave data bytes; a chained definition whose explicit part lengths add up to 1, 2 or 12 "
            "bytes less than its fields need must be rejected when loaded; every definition that is valid by the documented "
            "format must load (C09/universe-shrunk; known loader exceptions - explicit chain lengths with a common ID "
            "prefix, bit fields in chains - stay counted); chained: every part carries its ID and its defined number of data "
            "bytes, the parts in order reproduce the encoded value, and after all parts arrived within a small gap "
            "(and again after a second round with other values) the decoded value is the joined one; a third round "
            "16*parts s later (first values again, parts in the order of the history) is decoded after every part: "
            "while incomplete the value must be the previous complete one or the new one (or a failure), never "
            "parts of both rounds joined, and the new one when complete. Not judged: "
            "which valid definitions the loader rejects (counted), the result of a round that contains a gap of "
            "16*parts s, byte value of ignored master fields. states = (definition, values, arrival prefix), "
            "transitions = API calls, distinct = distinct loaded definitions.",
    "assumptions": [
        "time() is the only clock read by message.cpp (interposed by the harness)",
        "a gap of 0 or 1 s between parts is inside, 16*parts s outside any collection window",
        "definitions rejected by the loader are outside the statement except for the universe pin (valid rows of the harness grammar must load)",
    ],
    "runs": [{
        "harness": "c09_build", "sources": ["engines/msgmc/c09_build.cpp"], "deps": ["engines/msgmc/c09_grammar.h"],
        "variant": "plain", "libset": "core",
        "quick": {"parts": 16, "deadline": 240,
                  "bounds": "plain shapes: all layouts <=2 fields (9 kinds x 3 parts) + 3 fields over 4 kinds x {m,s} + over-long HEX:12 triples; chained shapes: layouts <=2 fields; all value choices, all arrival orders x gap patterns"},
        "thorough": {"parts": 16, "deadline": 840,
                     "bounds": "plain shapes: all layouts <=3 fields (10 kinds x 3 parts), 3 destinations; chained shapes: layouts <=3 fields; all value choices, all arrival orders x gap patterns"},
    }],
}

CHECKS["C19"] = {
    "engine": "msgmc", "design_ref": "5/C19",
    "level": "exploration",
    "level_text": "plain exhaustive enumeration of finite input domains on the real code: (a) every list of up to 3 "
                  "fields of up to 3 characters over {a , \" ; '} through a reference CSV encoder into "
                  "FileReader::splitFields, embedded between two other lines; (a2) every text of the statement's text "
                  "domain through the real dumpString and back through splitFields; (b) every definition file of a "
                  "bounded grammar through load -> dump -> load -> dump of the real MessageMap with attribute-wise "
                  "comparison of both generations",
    "level_note": "bounded grammar (one message per file, up to 2 (thorough 3) fields, 18 field kinds, 7 (13) message "
                  "kinds, 6 addressings, 6 ID shapes incl. 3 chained, texts up to 2 (3) characters); attributes are "
                  "read from the objects with -fno-access-control, independent of dump; trusts the reference CSV "
                  "encoder (self-tested)",
    "technique": "bounded-exhaustive enumeration of CSV field lists and definition files through the real split/load/dump code with differential comparison of generations",
    "rule": "(a) all field lists (1-3 fields x all strings of length<=3 over 5 characters; thorough also 1-2 fields of "
            "length<=4): split(encode(fields)) == fields, the lines before and after are split on their own (a line "
            "of only empty fields is a blank line: own row not judged). (a2) all texts of length<=5 (6) over "
            "{a , ; ' \" blank} without leading/trailing blank: split(dumpString(text)) == text. (b) sweep 1: message "
            "kind x addressing x ID shape x field lists of 0-2 (kind x part) with fixed texts (+ thorough: 3 fields "
            "on 6 message shapes); sweep 2: 4 (6) message/field shapes x message comment x unit x field comment "
            "over all strings of length<=2 (3) of the text alphabet; sweep 3: every sequence (every order) of 1-2 (3) "
            "fields out of 34 items - references to templates that carry a divisor (UCH/10, UIN/100, UIN/-10, "
            "UCH/-5, D2C/10) with a further divisor (product a power of ten or not, positive and reciprocal), "
            "template sets with divisor referenced with a divisor, a value-list template as is, and the same "
            "effective types defined directly on the root type before/after the reference - on 2 message shapes, "
            "each file in a forked child whose DataTypeList derived-type cache is pristine. Checked: dump of a loaded set loads; reloaded "
            "messages have identical direction, circuit, name, source, destination, ID, chain IDs+lengths, poll "
            "priority, comment, field count and per field name, part, type/length/bits, divisor, value list, "
            "constant, unit, comment, and identical decoded text of a fixed sample telegram (object attributes, not dump text); "
            "second dump == first dump; texts written by the reference encoder are loaded "
            "unchanged. Files the loader rejects are counted; only rejections for data that does not fit explicit chain "
            "lengths / STR:* and for divisor signs that cannot be combined are expected, any other one is "
            "C19/universe-shrunk. The text alphabet of (a2) and sweep 2 includes the double quote. distinct = distinct quoted lines / texts "
            "/ first-generation dumps.",
    "assumptions": [
        "leading/trailing blanks and blank-only fields are outside the statement (the reader trims)",
        "default columns only: no access level, range column or conditions",
        "derived number types are cached process-wide (DataTypeList): sweep 3 forks one child per file before the harness process has created any derived type; sweeps 1 and 2 share one process (cache filled in enumeration order)",
    ],
    "runs": [{
        "harness": "c19_roundtrip", "sources": ["engines/msgmc/c19_roundtrip.cpp"],
        "variant": "plain", "libset": "core",
        "quick": {"parts": 16, "deadline": 240,
                  "bounds": "(a) 3.8e6 field lists; (a2) texts <=5; (b) 216 message shapes x 2971 field lists + 4 x 31^3 text triples (alphabet with the double quote) + 2 shapes x 1190 divisor/template field sequences (length<=2) in forked children"},
        "thorough": {"parts": 16, "deadline": 840,
                     "bounds": "(a) + 1-2 fields of length<=4; (a2) texts <=6; (b) 396 message shapes x 2971 field lists + 6 shapes x 54^3 three-field lists + 3 x 181^3 + 3 x 31^3 text triples (alphabet with the double quote) + 2 shapes x 40494 divisor/template field sequences (length<=3) in forked children"},
    }],
}
