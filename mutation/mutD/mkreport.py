#!/usr/bin/env python3
"""Builds the result table of REPORT.md (REPORT_table.md) from results.tsv, ctest.tsv and the classifications below."""
import collections
import os

D = os.path.dirname(os.path.abspath(__file__))

# id -> (class, one-line reason); class: E equivalent / no listed property violated, G genuine gap, T killed by repo tests
CLS = {
    "m05": ("E", "only `find -l LEVEL` passes includeEmptyLevel=false; the statement puts the listing command with an explicit level option outside"),
    "m08": ("G", "gap G3: a wrong secret that starts with the right one authenticates (C16: failed authentication grants only the default levels)"),
    "m11": ("G", "gap G6: a command line of blanks only reaches `args[0]` of an empty vector (C20: out-of-bounds index on an arbitrary command line)"),
    "m14": ("G", "gap G2: `read PASSIVE-NAME` serves the cached value of a levelled passive message to a client without the level"),
    "m16": ("E", "placement only: a denied hex read is still refused before any cache or bus access (the error code may become ERR_INVALID_ARG for a write message / other circuit; no statement fixes the code)"),
    "m17": ("G", "gap G6 (quick bound): `write -c main setp` (4 tokens, no VALUE) indexes args[argPos+1] out of bounds; quick enumerates <=3 tokens and no frame writes without value"),
    "m19": ("E", "`answer \"\"` / `answer b5`: SymbolString::operator[] is bounds-safe and DirectProtocolHandler::setAnswer refuses idLen > 4 (size()-2 wrapped): still answered with an error, no memory error"),
    "m20": ("G", "gap G6 (alphabet): `find -F` indexes args[argPos] out of bounds; `-F` (like -e -r -w -a -f -v -V -u -U -vv ...) is not in the 44 token alphabet"),
    "m27": ("E", "a `//` inside the path cannot leave the root (root + '//x.js' is inside); the statement's `//` clause is only violated when something outside is served"),
    "m29": ("G", "gap G8: `GET x.js` / `GET -old/x.js` is served from `<root>x.js` / `<root>-old/x.js`, siblings of the html root (C18: served only from inside the configured root)"),
    "m30": ("E", "for pos+2 == length the tested character is the terminating NUL of the std::string (defined, not a hex digit): same result for every input"),
    "m33": ("G", "gap G6: `\"a  b\"` (two blanks inside quotes) evaluates token[npos] of an empty token: out-of-bounds read (C20); C18 part a generates it but runs unsanitised, C20 has no such token"),
    "m35": ("G", "gap G7: `GET /a?x?y`: the query reaching executeGet is `x` instead of `x?y` (C18: parsed to exactly what the client encoded; quantifier names '?' in the URI alphabet)"),
    "m36": ("E", "differs only when bytes follow the first LF inside one add() (pipelined lines); the statement quantifies over single command lines and the unchanged code has no defined behaviour there either (U: pipelining is unspecified)"),
    "m38": ("E", "the changed branch is only reached with an empty circuit or message name (`get(c,n,f)` does not even store an empty field); such triples are no identifiers"),
    "m39": ("E", "differs only for an empty variable value in the middle of a topic, which no triple of identifiers produces"),
    "m40": ("G", "gap G5: MqttHandler get/set by topic ignores the configured levels (C16: data sinks apply the same rule); no check executes mqtthandler.cpp"),
    "m41": ("G", "gap G5: MqttHandler strips the direction wrongly, every /get /set /list topic under a template ending in a variable is no longer mapped back (C18 clause 3); C18 re-implements the stripping in the harness"),
    "m44": ("T", "killed by the repository tests (test_message)"),
    "m45": ("G", "gap G10: `listen` delivers updates of every level (C16: read on behalf of a client only if ...); the filter sits in MainLoop::run, which no harness executes (NOTES_cmdA lists it as outside the bound)"),
    "m46": ("G", "gap G6: `GET /x.js\\n\\n` (request line without ` HTTP/x.y`): string::resize(npos) throws std::length_error, uncaught in the connection thread (C20)"),
    "m51": ("E", "no clause of C16/C18/C20 concerned: a hex command with more data bytes than NN is handed to the protocol handler (no crash; wire-format properties C02 are not driven from the command interpreter). U for C02"),
    "m61": ("G", "gap G9: two conditional variants of one circuit/name with different levels: a client holding only the level of the first stored variant reads the available variant that carries another level (confirmed with the probe)"),
    "m62": ("G", "gap G9: a user granted level `A` reads a message of level `a` (C16: exactly that level); level and list alphabets contain no case variants"),
    "m63": ("G", "gap G2: `read -s QQ -h ...` skips the level check (C16: read / sent as hex command only if ...); hex forms are only generated without -c / -s"),
    "m67": ("E", "the default maximum cache age is fixed by no listed property; the C16 oracle accepts a cached or a bus answer for data older than 300 s as long as the client holds the level"),
    "m68": ("G", "gap G1: messages that get their level from a default row (`*r,#level`, the form the published configuration files use: `*w,#install`) lose it and are served to everybody; every check assigns levels inline (`circuit#level`) only. Also survives C19 and C08 quick"),
    "m74": ("G", "gap G4: the second command line on a connection is parsed as previous line + new line (C18 clause 1); every check creates a fresh RequestImpl per request, Connection::run reuses one per connection"),
    "m52": ("G", "gap G2: `write -c CIRCUIT -h ...` skips the level check (C16: written only if ...); hex forms are only generated without -c / -s"),
}


def main():
    rows = collections.OrderedDict()
    with open(os.path.join(D, "results.tsv")) as f:
        next(f)
        for line in f:
            p = line.rstrip("\n").split("\t")
            if len(p) < 10:
                p += [""] * (10 - len(p))
            mid = p[0]
            r = rows.setdefault(mid, {"file": p[1], "fn": p[2], "what": p[3], "runs": [], "caught": None})
            r["runs"].append((p[4], p[6], p[8]))
            if p[6] == "caught":
                r["caught"] = (p[4], p[9])
    ct = {}
    if os.path.exists(os.path.join(D, "ctest.tsv")):
        for line in open(os.path.join(D, "ctest.tsv")):
            a, b = line.rstrip("\n").split("\t")
            ct[a] = b
    out = ["| id | file:function | change | checks run (wall s) | result | repo tests | class |", "|---|---|---|---|---|---|---|"]
    n = collections.Counter()
    for mid, r in rows.items():
        runs = ", ".join("%s %s" % (a.replace("C20cmd", "C20(cmd)"), c) for a, b, c in r["runs"])
        if r["caught"]:
            res = "caught by %s: `%s`" % (r["caught"][0].replace("C20cmd", "C20(cmd)"), r["caught"][1])
            cls, why, t = "caught", "", "-"
            n["caught"] += 1
        else:
            res = "survived"
            t = "pass" if ct.get(mid, "").startswith("100%") else (ct.get(mid, "not run"))
            cls, why = CLS.get(mid, ("?", "unclassified"))
            n[cls] += 1
        fn = "%s: %s" % (os.path.basename(r["file"]), r["fn"])
        out.append("| %s | %s | %s | %s | %s | %s | %s |" % (mid, fn, r["what"].replace("|", "\\|"), runs, res, t,
                                                            (cls + (": " + why if why else "")).replace("|", "\\|")))
    with open(os.path.join(D, "REPORT_table.md"), "w") as f:
        f.write("\n".join(out) + "\n")
    print(dict(n), "total", sum(n.values()))


main()
