#!/usr/bin/env python3
"""Generates mNN.diff (git apply-able on /repo HEAD) from exact single textual replacements."""
import difflib
import os
import subprocess
import sys

WT = "/tmp/mutD_wt"
OUT = os.path.dirname(os.path.abspath(__file__))
ML = "src/ebusd/mainloop.cpp"
MH = "src/ebusd/mainloop.h"
RQ = "src/ebusd/request.cpp"
MSG = "src/lib/ebus/message.cpp"
SH = "src/lib/ebus/stringhelper.cpp"
DH = "src/ebusd/datahandler.cpp"
DHH = "src/ebusd/datahandler.h"
MQ = "src/ebusd/mqtthandler.cpp"

# id, file, function, one-line change, properties to run (in order), old, new
M = []


def m(mid, f, fn, what, props, old, new):
    M.append((mid, f, fn, what, props, old, new))


# ---------------- access level comparison (message.cpp) ----------------
m("m01", MSG, "Message::checkLevel", "loop bound `pos + len <= maxLen` -> `<` (an entry ending the list is never compared)", "C16",
  "pos != string::npos && pos + len <= maxLen;", "pos != string::npos && pos + len < maxLen;")
m("m02", MSG, "Message::checkLevel", "left token boundary not tested (a suffix of an entry grants: 'a' in 'ba')", "C16",
  "    if ((pos == 0 || checkLevels[pos - 1] == VALUE_SEPARATOR)\n        && (pos + len == maxLen", "    if ((pos + len == maxLen")
m("m03", MSG, "Message::checkLevel", "the two early returns swapped (empty granted list is tested before the empty message level)", "C16",
  "  if (level.empty()) {\n    return true;\n  }\n  if (checkLevels.empty()) {\n    return false;\n  }",
  "  if (checkLevels.empty()) {\n    return false;\n  }\n  if (level.empty()) {\n    return true;\n  }")
m("m04", MSG, "MessageMap::findAll", "level filter switched off for an empty granted list (`levels != \"*\"` -> `!levels.empty() && levels != \"*\"`)", "C16",
  "  bool checkLevel = levels != \"*\";", "  bool checkLevel = !levels.empty() && levels != \"*\";")
m("m05", MSG, "MessageMap::findAll", "includeEmptyLevel argument not passed on to hasLevel (default true)", "C16",
  "if (checkLevel && !message->hasLevel(levels, includeEmptyLevel)) {", "if (checkLevel && !message->hasLevel(levels)) {")
# ---------------- ACL parsing ----------------
m("m06", ML, "UserList::addFromFile", "separator between level columns added when the list is still empty instead of non-empty (negated condition)", "C16",
  "      if (!levels.empty()) {\n        levels += VALUE_SEPARATOR;", "      if (levels.empty()) {\n        levels += VALUE_SEPARATOR;")
m("m07", ML, "UserList::getFieldMap", "default column map declares `level` instead of the repeating `*level` (only the first level column of a row is read)", "C16",
  "    row->push_back(\"secret\");\n    row->push_back(\"*level\");", "    row->push_back(\"secret\");\n    row->push_back(\"level\");")
m("m08", MH, "UserList::checkSecret", "secret compared as prefix: the given secret only has to start with the stored one", "C16",
  "return it != m_userSecrets.end() && it->second == secret;",
  "return it != m_userSecrets.end() && secret.compare(0, it->second.length(), it->second) == 0;")
# ---------------- auth / decodeRequest ----------------
m("m09", ML, "MainLoop::executeAuth", "user name stored before the secret is checked (state left behind on the error path)", "C16",
  "  if (m_userList.checkSecret(args[1], args[2])) {\n    *user = args[1];\n    return RESULT_OK;",
  "  *user = args[1];\n  if (m_userList.checkSecret(args[1], args[2])) {\n    return RESULT_OK;")
m("m10", ML, "MainLoop::decodeRequest", "write command is given the levels of the default entry instead of the session user's", "C16",
  "return executeWrite(args, getUserLevels(*user), ostream);", "return executeWrite(args, getUserLevels(\"\"), ostream);")
m("m11", ML, "MainLoop::decodeRequest", "command word taken from args[0] without the emptiness test", "C20cmd",
  "string cmd = args.size() > 0 ? args[0] : \"\";", "string cmd = args.size() >= 0 ? args[0] : \"\";")
m("m12", ML, "MainLoop::decodeRequest", "HTTP: minimum argument count `< 2` -> `< 1` (request line without URI reaches executeGet)", "C20cmd C18",
  "    if (args.size() < 2) {\n      *connected = false;\n      *ostream << \"HTTP/1.0 400", "    if (args.size() < 1) {\n      *connected = false;\n      *ostream << \"HTTP/1.0 400")
# ---------------- executeRead ----------------
m("m13", ML, "MainLoop::executeRead (hex)", "cache age test `lastUpdate + maxAge > now` -> `>=` (a forced read `-f` in the second of the last update is answered from the cache)", "C16 C20cmd",
  "        && (message->getLastUpdateTime() + maxAge > now\n            || (message->isPassive()", "        && (message->getLastUpdateTime() + maxAge >= now\n            || (message->isPassive()")
m("m14", ML, "MainLoop::executeRead (by name)", "the lookup of the passive (cached) variant of the message ignores the client's levels (\"*\")", "C16",
  "Message* cacheMessage = allowCache ? m_messages->find(circuit, name, levels, false, true) : nullptr;",
  "Message* cacheMessage = allowCache ? m_messages->find(circuit, name, \"*\", false, true) : nullptr;")
m("m15", ML, "MainLoop::executeRead", "`-i` missing-argument test `>=` -> `>`", "C20cmd",
  "    } else if (args[argPos] == \"-i\") {\n      argPos++;\n      if (argPos >= args.size()) {\n        argPos = 0;  // print usage\n        break;\n      }\n      params = args[argPos];",
  "    } else if (args[argPos] == \"-i\") {\n      argPos++;\n      if (argPos > args.size()) {\n        argPos = 0;  // print usage\n        break;\n      }\n      params = args[argPos];")
m("m16", ML, "MainLoop::executeRead (hex)", "level check moved behind the direction and circuit checks (placement only)", "C16",
  "    if (!message->hasLevel(levels)) {\n      return RESULT_ERR_NOTAUTHORIZED;\n    }\n    if (message->isWrite()) {\n      return RESULT_ERR_INVALID_ARG;\n    }\n    if (circuit.length() > 0 && circuit != message->getCircuit()) {\n      return RESULT_ERR_INVALID_ARG;  // non-matching circuit\n    }",
  "    if (message->isWrite()) {\n      return RESULT_ERR_INVALID_ARG;\n    }\n    if (circuit.length() > 0 && circuit != message->getCircuit()) {\n      return RESULT_ERR_INVALID_ARG;  // non-matching circuit\n    }\n    if (!message->hasLevel(levels)) {\n      return RESULT_ERR_NOTAUTHORIZED;\n    }")
# ---------------- executeWrite ----------------
m("m17", ML, "MainLoop::executeWrite", "missing-value test `args.size() == argPos + 1` -> `== argPos` (write without VALUE indexes behind the arguments)", "C20cmd C16",
  "args.size() == argPos + 1 ? \"\" : args[argPos + 1], dstAddress, srcAddress);", "args.size() == argPos ? \"\" : args[argPos + 1], dstAddress, srcAddress);")
# ---------------- hex / answer ----------------
m("m18", ML, "MainLoop::parseHexAndSend", "`-s` guard `argPos + 1 < args.size()` -> `<=`", "C20cmd",
  "    if (args[argPos] == \"-s\" && argPos + 1 < args.size()) {\n      result_t ret;\n      argPos++;\n      symbol_t address = (symbol_t)parseInt(args[argPos].c_str(), 16, 0, 0xff, &ret);\n      if (ret != RESULT_OK || !isValidAddress(address, false) || !isMaster(address)) {\n        return RESULT_ERR_INVALID_ADDR;\n      }\n      srcAddress = address == m_address",
  "    if (args[argPos] == \"-s\" && argPos + 1 <= args.size()) {\n      result_t ret;\n      argPos++;\n      symbol_t address = (symbol_t)parseInt(args[argPos].c_str(), 16, 0, 0xff, &ret);\n      if (ret != RESULT_OK || !isValidAddress(address, false) || !isMaster(address)) {\n        return RESULT_ERR_INVALID_ADDR;\n      }\n      srcAddress = address == m_address")
m("m19", ML, "MainLoop::executeAnswer", "lower bound of the ID length dropped (`id.size() < 2 ||` removed)", "C20cmd",
  "    if (id.size() < 2 || id.size() > 6) {", "    if (id.size() > 6) {")
# ---------------- find ----------------
m("m20", ML, "MainLoop::executeFind", "`-F` missing-argument test `argPos >= args.size()` -> `>`", "C20cmd",
  "      if (hexFormat || (argPos >= args.size())) {", "      if (hexFormat || (argPos > args.size())) {")
m("m21", ML, "MainLoop::executeFind", "`-i` missing-argument test `argPos >= args.size()` -> `>`", "C20cmd",
  "      if (argPos >= args.size() || !id.empty()) {", "      if (argPos > args.size() || !id.empty()) {")
m("m22", ML, "MainLoop::executeFind", "wrong default: userLevel starts false (messages without level are only listed for an empty granted list)", "C16",
  "onlyWithData = false, hexFormat = false, userLevel = true, withConditions = false;", "onlyWithData = false, hexFormat = false, userLevel = false, withConditions = false;")
# ---------------- direct / define / encode ----------------
m("m23", ML, "MainLoop::executeDirect", "`args.size() > 0` -> `>= 0` before args[0] in direct mode", "C20cmd",
  "  if (args.size() > 0) {\n    string firstArg = args[0];", "  if (args.size() >= 0) {\n    string firstArg = args[0];")
m("m24", ML, "MainLoop::executeEncode", "argument count test `!=` -> `>` (encode with one argument indexes behind the arguments)", "C20cmd",
  "  if (args.size() != argPos + 2) {\n    argPos = 0;  // print usage\n  }\n\n  if (argPos == 0) {\n    *ostream <<\n        \"usage: encode",
  "  if (args.size() > argPos + 2) {\n    argPos = 0;  // print usage\n  }\n\n  if (argPos == 0) {\n    *ostream <<\n        \"usage: encode")
m("m25", ML, "MainLoop::executeDefine", "argument count test `args.size() != argPos + 1` -> `args.size() < argPos` (define without DEFINITION)", "C20cmd",
  "  if (argPos == 0 || args.size() != argPos + 1) {\n    *ostream <<\n         \"usage: define", "  if (argPos == 0 || args.size() < argPos) {\n    *ostream <<\n         \"usage: define")
# ---------------- HTTP /data ----------------
m("m26", ML, "MainLoop::executeGet", "circuit of `/data` taken with substr(6) also when the URI is exactly `/data`", "C20cmd C18",
  "      circuit = uri.length() == 5 ? \"\" : uri.substr(6);", "      circuit = uri.substr(6);")
# ---------------- HTTP static files / root confinement ----------------
m("m27", ML, "MainLoop::executeGet (files)", "the `//` test of the traversal guard dropped", "C18",
  "uri[0] != '/' || uri.find(\"//\") != string::npos || uri.find(\"..\") != string::npos) {", "uri[0] != '/' || uri.find(\"..\") != string::npos) {")
m("m28", ML, "MainLoop::executeGet (files)", "`..` only refused at the start of the path (`uri.find(\"..\") != npos` -> `uri.compare(0, 3, \"/..\") == 0`)", "C18",
  "uri.find(\"//\") != string::npos || uri.find(\"..\") != string::npos) {", "uri.find(\"//\") != string::npos || uri.compare(0, 3, \"/..\") == 0) {")
m("m29", ML, "MainLoop::executeGet (files)", "leading-slash test dropped (`uri[0] != '/'`): the URI is appended to the root path without separator", "C18",
  "  if (uri.length() < 1 || uri[0] != '/' || uri.find(\"//\")", "  if (uri.length() < 1 || uri.find(\"//\")")
# ---------------- request.cpp ----------------
m("m30", RQ, "RequestImpl::add", "escape length test `pos+2 < length` -> `<=`", "C18",
  "if (pos+2 < m_request.length() && isxdigit", "if (pos+2 <= m_request.length() && isxdigit")
m("m31", RQ, "RequestImpl::add", "cursor advanced by 3 after a decoded escape although 2 characters were erased (index advanced at the wrong time)", "C18",
  "          m_request.erase(pos+1, 2);\n        }\n        pos++;", "          m_request.erase(pos+1, 2);\n          pos += 2;\n        }\n        pos++;")
m("m32", RQ, "RequestImpl::add", "second hex digit test looks at the first digit again (copy/paste: pos+1 twice)", "C18 C20cmd",
  "            && isxdigit(static_cast<unsigned char>(m_request[pos+2]))) {", "            && isxdigit(static_cast<unsigned char>(m_request[pos+1]))) {")
m("m33", RQ, "RequestImpl::split", "emptiness guard of the closing-quote test dropped inside a quoted argument (token[length-1] on an empty token)", "C18 C20cmd",
  "        args->pop_back();\n        if (token.length() > 0 && token[token.length()-1] == escaped) {", "        args->pop_back();\n        if (token[token.length()-1] == escaped) {")
m("m34", RQ, "RequestImpl::split", "empty tokens are skipped before the quoted-argument branch (repeated blanks inside quotes collapse)", "C18",
  "      if (escaped) {\n        args->pop_back();\n        if (token.length() > 0 && token[token.length()-1] == escaped) {\n          token.erase(token.length() - 1, 1);\n          escaped = 0;\n        }\n        token = previous + \" \" + token;\n      } else if (token.length() == 0) {  // allow multiple space chars for a single delimiter\n        continue;\n      } else if",
  "      if (token.length() == 0) {  // allow multiple space chars for a single delimiter\n        continue;\n      } else if (escaped) {\n        args->pop_back();\n        if (token.length() > 0 && token[token.length()-1] == escaped) {\n          token.erase(token.length() - 1, 1);\n          escaped = 0;\n        }\n        token = previous + \" \" + token;\n      } else if")
m("m35", RQ, "RequestImpl::split", "HTTP: the query is split at every `?` (`args->size() == 1` -> `<= 2`)", "C18",
  "      delim = (args->size() == 1) ? '?' : '\\n';", "      delim = (args->size() <= 2) ? '?' : '\\n';")
m("m36", RQ, "RequestImpl::add", "TCP: the request is always cut at the first line end (condition `pos+1 == length` dropped)", "C18",
  "    } else if (pos+1 == m_request.length()) {\n      m_request.resize(pos);", "    } else {\n      m_request.resize(pos);")
m("m46", RQ, "RequestImpl::add", "HTTP: the ` HTTP/x.y` suffix is cut without the not-found test (resize(npos) for a request line without version)", "C18 C20cmd",
  "      if (pos != string::npos) {\n        m_request.resize(pos);  // remove \"HTTP/x.x\" suffix\n      }", "      m_request.resize(pos);  // remove \"HTTP/x.x\" suffix")
# ---------------- StringReplacer ----------------
m("m37", SH, "StringReplacer::match", "look-ahead test `idx+1 < count` -> `idx+2 < count` (a variable followed by the final constant is treated as the last part)", "C18",
  "    if (idx+1 < count) {\n      string chk = m_parts[idx+1].first;", "    if (idx+2 < count) {\n      string chk = m_parts[idx+1].first;")
m("m38", SH, "StringReplacer::get", "an empty value with untilFirstEmpty returns an empty string instead of the prefix built so far", "C18",
  "    } else if (pos->second.empty()) {\n      if (untilFirstEmpty) {\n        break;\n      }", "    } else if (pos->second.empty()) {\n      if (untilFirstEmpty) {\n        return \"\";\n      }")
m("m39", SH, "StringReplacer::match", "the search for the following constant starts one character behind the cursor (an empty value is never matched)", "C18",
  "      size_t pos = str.find(chk, last);", "      size_t pos = str.find(chk, last + 1);")
# ---------------- MQTT handler / data sinks ----------------
m("m40", MQ, "MqttHandler::notifyMqttTopic", "get/set lookup by name ignores the configured levels (\"*\")", "C16",
  "  Message* message = m_messages->find(circuit, name, m_levels, isWrite);\n  if (message == nullptr) {", "  Message* message = m_messages->find(circuit, name, \"*\", isWrite);\n  if (message == nullptr) {")
m("m41", MQ, "MqttHandler::notifyMqttTopic", "the topic handed to match keeps the slash before the direction (substr(0, pos) -> substr(0, pos+1))", "C18",
  "  string matchTopic = topic.substr(0, pos);", "  string matchTopic = topic.substr(0, pos+1);")
m("m42", DHH, "DataSink::DataSink", "no fallback to the default entry for an unknown sink user (getLevels(user) directly)", "C16",
  "    m_levels = userInfo->getLevels(userInfo->hasUser(user) ? user : \"\");", "    m_levels = userInfo->getLevels(user);")
m("m43", DH, "DataSink::notifyUpdate", "hasLevel called with includeEmpty=false (messages without level only pass for an empty list)", "C16",
  "  if (message && message->hasLevel(m_levels)) {", "  if (message && message->hasLevel(m_levels, false)) {")
# ---------------- lib: key shift ----------------
m("m44", MSG, "Message::createKey", "wrap-around of the byte position one step late (`exp < 0` -> `exp < -1`: negative shift for IDs of 5 and more bytes)", "C20cmd",
  "    key ^= (uint64_t)master.dataAt(i) << (8 * exp--);\n    if (exp < 0) {\n      exp = 3;\n    }\n  }\n  return key;\n}\n\nuint64_t Message::createKey(symbol_t pb",
  "    key ^= (uint64_t)master.dataAt(i) << (8 * exp--);\n    if (exp < -1) {\n      exp = 3;\n    }\n  }\n  return key;\n}\n\nuint64_t Message::createKey(symbol_t pb")
m("m45", ML, "MainLoop::run (listen)", "listening clients get the updates of all levels (getUserLevels(user) -> \"*\")", "C16",
  "        string levels = getUserLevels(user);\n        messages.clear();", "        string levels = \"*\";\n        messages.clear();")
# ---------------- further command-interpreter slips ----------------
m("m49", ML, "MainLoop::executeGet", "message list of /data is selected with the levels of the default entry; only the reported `access` uses the user", "C16",
  "      m_messages->findAll(circuit, name, getUserLevels(user), exact, true, withWrite, true, true, true, 0, 0, false,\n                          &messages);",
  "      m_messages->findAll(circuit, name, getUserLevels(\"\"), exact, true, withWrite, true, true, true, 0, 0, false,\n                          &messages);")
m("m51", ML, "MainLoop::parseHexMaster", "total length test `!=` -> `>` (more data bytes than NN announces are accepted)", "C20cmd C16",
  "  if (((autoLength ? 3 : 4)+length)*2 != str.size()) {", "  if (((autoLength ? 3 : 4)+length)*2 > str.size()) {")
m("m52", ML, "MainLoop::executeWrite (hex)", "level check only for messages of another circuit than the given one (merged with the circuit test)", "C16",
  "    if (!message->hasLevel(levels)) {\n      return RESULT_ERR_NOTAUTHORIZED;\n    }\n    if (!message->isWrite()) {",
  "    if (circuit != message->getCircuit() && !message->hasLevel(levels)) {\n      return RESULT_ERR_NOTAUTHORIZED;\n    }\n    if (!message->isWrite()) {")

# ---------------- extra (second batch) ----------------
m("m61", MSG, "MessageMap::find(circuit,name)", "level tested on the first message stored under the name instead of the first available one that is returned", "C16",
  "      Message* message = getFirstAvailable(it->second);\n      if (message && message->hasLevel(levels)) {", "      Message* message = getFirstAvailable(it->second);\n      if (message && it->second.front()->hasLevel(levels)) {")
m("m62", ML, "UserList::addFromFile", "level list of an ACL row is lower-cased on load (as the column names are)", "C16",
  "  m_userSecrets[name] = secret;\n  m_userLevels[name] = levels;", "  m_userSecrets[name] = secret;\n  FileReader::tolower(&levels);\n  m_userLevels[name] = levels;")
m("m63", ML, "MainLoop::executeRead (hex)", "level check only when the own source address is used (`-s QQ` given: check skipped together with the cache branch)", "C16",
  "    if (!message->hasLevel(levels)) {\n      return RESULT_ERR_NOTAUTHORIZED;\n    }\n    if (message->isWrite()) {\n      return RESULT_ERR_INVALID_ARG;\n    }\n    if (circuit.length() > 0",
  "    if (srcAddress == SYN && !message->hasLevel(levels)) {\n      return RESULT_ERR_NOTAUTHORIZED;\n    }\n    if (message->isWrite()) {\n      return RESULT_ERR_INVALID_ARG;\n    }\n    if (circuit.length() > 0")
m("m64", RQ, "RequestImpl::split", "emptiness guard of the closing-quote test dropped for the opening token (a lone quote character: token[length-1] on an empty token)", "C18 C20cmd",
  "        token.erase(0, 1);\n        if (token.length() > 0 && token[token.length()-1] == escaped) {", "        token.erase(0, 1);\n        if (token[token.length()-1] == escaped) {")

m("m65", ML, "MainLoop::executeGet", "`maxage=` no longer implies `required` (dropped assignment)", "C16",
  "          maxAge = parseInt(value.c_str(), 10, 0, 24*60*60, &ret);\n          required = true;", "          maxAge = parseInt(value.c_str(), 10, 0, 24*60*60, &ret);")
m("m67", ML, "MainLoop::executeRead", "wrong default for the maximum cache age (5*60 -> 5*60*60 seconds)", "C16",
  "  time_t maxAge = 5*60;\n  string circuit, params;", "  time_t maxAge = 5*60*60;\n  string circuit, params;")
m("m74", RQ, "RequestImpl::waitResponse", "request buffer not cleared after the response was fetched (dropped reset: the next line of the connection is appended to the previous one)", "C18",
  "  m_request.clear();\n  *result = m_result;", "  *result = m_result;")

m("m66", RQ, "RequestImpl::add", "the end-of-request search only looks at the newly added piece, not at the accumulated buffer (an HTTP header end or CR LF split over two recv pieces is missed)", "C18",
  "  if (request && request[0]) {\n    string add = request;\n    add.erase(remove(add.begin(), add.end(), '\\r'), add.end());\n    m_request.append(add);\n  }\n  size_t pos = m_request.find(m_isHttp ? \"\\n\\n\" : \"\\n\");",
  "  size_t from = 0;\n  if (request && request[0]) {\n    string add = request;\n    add.erase(remove(add.begin(), add.end(), '\\r'), add.end());\n    from = m_request.length();\n    m_request.append(add);\n  }\n  size_t pos = m_request.find(m_isHttp ? \"\\n\\n\" : \"\\n\", from);")

m("m68", MSG, "MessageMap::addDefaultFromFile (default rows)", "a default row whose circuit column is only `#level` (e.g. `*w,#install`) keeps the default circuit but loses the level", "C16",
  "        value = defaultCircuit+defaultSuffix+value;\n      } else if (!defaultSuffix.empty()", "        value = defaultCircuit+defaultSuffix;\n      } else if (!defaultSuffix.empty()")


def main():
    rows = []
    for mid, f, fn, what, props, old, new in M:
        src = subprocess.run(["git", "-C", WT, "show", "HEAD:" + f], stdout=subprocess.PIPE, check=True).stdout.decode()
        n = src.count(old)
        if n != 1:
            print("%s: old text found %d times in %s" % (mid, n, f))
            sys.exit(1)
        dst = src.replace(old, new)
        diff = "".join(difflib.unified_diff(src.splitlines(True), dst.splitlines(True), "a/" + f, "b/" + f, n=3))
        head = "# %s  %s  %s\n# %s\n# checks: %s\n" % (mid, f, fn, what, props)
        with open(os.path.join(OUT, mid + ".diff"), "w") as fh:
            fh.write(head + diff)
        rows.append("\t".join([mid, f, fn, what, props]))
    with open(os.path.join(OUT, "mutants.tsv"), "w") as fh:
        fh.write("\n".join(rows) + "\n")
    print("%d mutants written" % len(M))


main()
