// busmc: exhaustive deviation-bounded exploration of the real DirectProtocolHandler + device in
// a closed bus world (see DESIGN.md 4.1).  --prop selects the property whose monitor is active.
#include <algorithm>
#include <functional>
#include <set>
#include "busmon.h"
#include "busworld.h"

using namespace bw;
using ref::Bytes;
using ref::Telegram;

static vp::Result R;
static bool replayViolated = false;
static bool validateHash = false;
static long validateEvery = 0, validateMaxK = 1;
static std::string g_tier = "quick";

// ------------------------------------------------------------------ scenario construction helpers
struct Tel {
  Bytes master, slave;
  int nakM = 0, nakS = 0;  // 0 none, 1 first attempt with bad CRC then NAK, 2 first attempt good but NAK-ed
};
static Bytes cat(Bytes a, const Bytes& b) { a.insert(a.end(), b.begin(), b.end()); return a; }
static Bytes telWire(const Tel& t) {
  Bytes b;
  if (t.nakM) b = cat(cat(b, ref::wirePart(t.master, t.nakM == 1 ? 0x01 : 0)), Bytes{ref::NAK});
  b = cat(b, ref::wirePart(t.master));
  uint8_t zz = t.master[1];
  if (zz == ref::BROADCAST) return b;
  b.push_back(ref::ACK);
  if (ref::isMaster(zz)) return b;
  if (t.nakS) b = cat(cat(b, ref::wirePart(t.slave, t.nakS == 1 ? 0x01 : 0)), Bytes{ref::NAK});
  b = cat(b, ref::wirePart(t.slave));
  b.push_back(ref::ACK);
  return b;
}
static Script telScript(const Tel& t) { return Script{send(telWire(t))}; }
static Tel mk(const char* m, const char* s = "", int nakM = 0, int nakS = 0) {
  Tel t; t.master = ref::unhex(m); t.slave = ref::unhex(s); t.nakM = nakM; t.nakS = nakS; return t;
}
// find a data byte that makes the CRC of the part equal to want
static Bytes withCrc(Bytes part, size_t pos, uint8_t want) {
  for (int v = 0; v < 256; v++) {
    if (v == 0xA9 || v == 0xAA) continue;
    part[pos] = (uint8_t)v;
    if (ref::crcOf(part) == want) return part;
  }
  fprintf(stderr, "withCrc: no value\n");
  abort();
}

static std::vector<Tel> catalogue(bool full) {
  std::vector<Tel> c;
  c.push_back(mk("10fe07040a"));                       // placeholder replaced below (keeps index 0 simple)
  c.back() = mk("10fe070400");
  c.push_back(mk("10feb51603a9aa01"));                 // BC with data needing both escapes
  c.push_back(mk("1030b5100155"));                     // MM
  c.push_back(mk("1008b509020d00", "015a"));           // MS
  c.push_back(mk("0315070400", "00"));                 // MS with empty data both sides
  c.push_back(mk("f176b5110101", "03a9aa00"));         // MS, response needs escapes
  { Tel t = mk("1008b5090200ff", "0100"); t.master = withCrc(t.master, 5, 0xA9); c.push_back(t); }  // master CRC == A9
  { Tel t = mk("1008b5090200ff", "0100"); t.master = withCrc(t.master, 5, 0xAA); t.slave = withCrc(t.slave, 1, 0xAA); c.push_back(t); }
  c.push_back(mk("1008b509020d00", "015a", 1, 0));     // master part NAK-ed (bad CRC first)
  c.push_back(mk("1008b509020d00", "015a", 0, 1));     // slave part NAK-ed
  c.push_back(mk("1036070400", "0a0102030405060708090a"));  // to the default own slave address, nobody answering configured
  c.push_back(mk("31fe070400"));                       // source == default own master address
  if (full) {
    c.push_back(mk("1008b509020d00", "015a", 2, 2));   // both parts NAK-ed although good
    c.push_back(mk("1008b509020d00", "015a", 1, 1));
    c.push_back(mk("1030b5100155", "", 1, 0));         // MM with NAK-ed first attempt
    c.push_back(mk("1030b5100155", "", 2, 0));
    c.push_back(mk("10fe0700100102030405060708090a0b0c0d0e0f10"));  // NN = 16
    c.push_back(mk("1008b5091000a9aaa9aaa9aaa9aaa9aaa9aaa9aa01", "10aaa9aaa9aaa9aaa9aaa9aaa9aaa9aaa9"));  // NN=16 all escapes
    { Tel t = mk("1008b5090200ff", "0200ff"); t.slave = withCrc(t.slave, 1, 0xA9); c.push_back(t); }
    c.push_back(mk("ff08070400", "00"));               // source FF
    c.push_back(mk("0004070400", "0100"));             // dst 04 (slave of master FF)
    c.push_back(mk("1000b5100100"));                   // MM to master 00
  }
  return c;
}

struct Cfg { uint8_t own; bool readOnly, answer, genSyn; unsigned lockCount; };
static std::vector<Cfg> configs(bool full) {
  std::vector<Cfg> c = {
    {0x31, false, false, false, 0}, {0xFF, true, false, false, 0}, {0x00, false, true, false, 0},
    {0x31, false, false, false, 3}, {0x31, false, false, true, 5}, {0x31, false, true, true, 0},
  };
  if (full) {
    c.push_back({0x31, true, true, true, 5});
    c.push_back({0xFF, false, false, true, 0});
    c.push_back({0x00, false, false, false, 5});
    c.push_back({0x10, false, true, false, 3});   // own address == source of most catalogue telegrams
  }
  return c;
}
static void applyCfg(Scenario* s, const Cfg& c) {
  s->own = c.own; s->readOnly = c.readOnly; s->answer = c.answer; s->genSyn = c.genSyn; s->lockCount = c.lockCount;
  if (c.answer) {  // answers registered for other commands / addresses only (never matching the catalogue)
    s->answers.push_back(AnswerSpec{-1, (uint8_t)(c.own + 5), 0x07, 0x05, Bytes{}, Bytes{0x01, 0x02}});
    s->answers.push_back(AnswerSpec{0x03, (uint8_t)(c.own + 5), 0xb5, 0x09, Bytes{0x77}, Bytes{0x00}});
  }
}

// ------------------------------------------------------------------ property drivers
struct Bounds { int dev, chunk, req; bool hash; };

static std::string scenarioCase(const std::string& prop, size_t idx, const vp::Explorer& ex) {
  return "prop=" + prop + ";tier=" + g_tier + ";sc=" + std::to_string(idx) + ";ch=" + ex.choicesStr();
}

typedef std::function<std::vector<Monitor*>(World&, VSink*)> MonFactory;

static void runScenario(const std::string& prop, size_t idx, const Scenario& sc, const Bounds& b,
                        const MonFactory& mf, const std::vector<uint16_t>* replay) {
  vp::Explorer ex;
  ex.budget[K_DEV] = sc.k + b.dev; ex.budget[K_CHUNK] = sc.c + b.chunk; ex.budget[K_REQ] = sc.r;
  ex.useHash = replay == nullptr;
  ex.collectOnly = !b.hash;
  auto body = [&](vp::Explorer& e) {
    VSink sink;
    World w(sc, e);
    w.logging = replay != nullptr;
    std::vector<Monitor*> mons = mf(w, &sink);
    w.mons = mons;
    w.run();
    R.transitions += w.reads;
    if (w.capHit) R.cap("step cap hit in scenario " + sc.name);
    if (replay != nullptr) {
      printf("scenario %zu: %s\n", idx, sc.name.c_str());
      for (auto& l : w.log) printf("  %s\n", l.c_str());
    }
    if (!e.aborted) {
      // distinct observation traces: hash of delivered symbols + verdict count
      uint64_t hsh = vp::fnv(w.syms.data(), w.syms.size() * sizeof(DeliveredSym), idx * 1315423911ULL + 7);
      R.distinct(hsh);
    }
    for (auto& v : sink.v) {
      if (replay != nullptr) printf("VIOLATES %s: %s\n", v.first.c_str(), v.second.c_str());
      R.violation(v.first, v.second + " [scenario " + sc.name + "]", scenarioCase(prop, idx, e));
    }
    if (replay != nullptr && sink.v.empty()) printf("OK (no violation)\n");
    replayViolated = !sink.v.empty();
    for (auto m : mons) delete m;
  };
  if (replay != nullptr) {
    ex.runOnce(*replay, body);
    return;
  }
  ex.explore([&](vp::Explorer& e) {
    body(e);
    if ((e.executions & 0x3ff) == 0 && R.expired()) e.stopAll = true;
  });
  R.evaluations += ex.executions;
  R.tracesValidated += ex.executions;
  R.count("choice_points", ex.choicePoints);
  R.count("pruned_runs", ex.pruned);
  for (uint64_t h : ex.visited) R.stateSet.insert(h ^ (idx * 0x9E3779B97F4A7C15ULL));
  if (ex.collectOnly) R.count("stateless_scenarios", 1);
  if (validateHash && replay == nullptr) {
    // fingerprint validation: the pruned search must visit exactly the states the unpruned search visits
    validateHash = false;
    std::unordered_set<uint64_t> pruned = ex.visited;
    uint64_t prunedExec = ex.executions;
    vp::Result saved = R;
    Bounds b2 = b; b2.hash = !b.hash;
    vp::Explorer ex2;
    ex2.budget[K_DEV] = sc.k + b.dev; ex2.budget[K_CHUNK] = sc.c + b.chunk; ex2.budget[K_REQ] = sc.r;
    ex2.useHash = true; ex2.collectOnly = b.hash;
    std::set<std::string> sig1, sig2;
    for (auto& v : R.violations) sig1.insert(v.first);
    std::unordered_map<uint64_t, std::string> paths;
    if (getenv("VERIF_DEBUG_HASH")) ex2.debugPaths = &paths;
    ex2.explore([&](vp::Explorer& e) { body(e); });
    if (ex2.debugPaths) {
      int n = 0;
      for (auto& kv : paths) if (!pruned.count(kv.first) && n++ < 5) fprintf(stderr, "state only in unpruned search reached by: sc=%zu;ch=%s\n", idx, kv.second.c_str());
    }
    for (auto& v : R.violations) sig2.insert(v.first);
    bool same = pruned == ex2.visited;
    R = saved;
    R.count("hash_validation_scenarios", 1);
    R.count("hash_validation_executions_other_mode", ex2.executions);
    if (!same) {
      fprintf(stderr, "hash validation failed for scenario %s: %zu vs %zu states (%llu vs %llu executions)\n", sc.name.c_str(),
              pruned.size(), ex2.visited.size(), (unsigned long long)prunedExec, (unsigned long long)ex2.executions);
      exit(5);
    }
    validateHash = true;
  }
}

// ---- C01 ----
static std::vector<Scenario> scenariosC01(bool thorough, const vp::Args& A) {
  std::vector<Scenario> v;
  std::vector<Tel> cat1 = catalogue(thorough);
  std::vector<Cfg> cfgs = configs(thorough);
  for (int enh = 0; enh < 2; enh++) {
    for (size_t ci = 0; ci < cfgs.size(); ci++) {
      for (size_t ti = 0; ti < cat1.size(); ti++) {
        Scenario s;
        applyCfg(&s, cfgs[ci]);
        s.enhanced = enh;
        s.foreign.push_back(telScript(cat1[ti]));
        s.k = (thorough || ci == 0 || ci == 5) ? 2 : 1;
        if (thorough && ci == 0 && ti < 12) s.k = 3;
        s.c = thorough ? 2 : 1;
        s.name = std::string(enh ? "enh" : "plain") + "/cfg" + std::to_string(ci) + "/tel" + std::to_string(ti) + "/k" + std::to_string(s.k);
        v.push_back(s);
      }
      // pairs: a (possibly corrupted) first telegram must not disturb the second one
      size_t np = thorough ? 6 : 3;
      for (size_t a = 0; a < np; a++) for (size_t bb = 0; bb < np; bb++) {
        if (ci > 1 && !thorough) continue;
        Scenario s;
        applyCfg(&s, cfgs[ci]);
        s.enhanced = enh;
        s.foreign.push_back(telScript(cat1[a + 1]));
        s.foreign.push_back(telScript(cat1[bb + 2]));
        s.gapSyns = 1 + (int)((a + bb) & 1);
        s.k = (thorough || ci == 0) ? 2 : 1;
        s.c = 1;
        s.name = std::string(enh ? "enh" : "plain") + "/cfg" + std::to_string(ci) + "/pair" + std::to_string(a + 1) + "-" + std::to_string(bb + 2);
        v.push_back(s);
      }
    }
  }
  return v;
}

int main(int argc, char** argv) {
  vp::Args A = vp::parseArgs(argc, argv);
  setFacilitiesLogLevel(1 << lf_COUNT, ll_none);
  std::string prop = A.get("prop", "C01");
  std::vector<uint16_t> rchoices;
  long rsc = -1;
  if (A.replay) {
    auto m = vp::parseCase(A.replayCase);
    prop = m["prop"];
    rsc = atol(m["sc"].c_str());
    rchoices = vp::Explorer::parseChoices(m["ch"]);
    if (m.count("tier")) A.tier = m["tier"];
  }
  R.setDeadline(A);
  g_tier = A.tier;
  validateEvery = A.getInt("validate-every", 0);
  validateMaxK = A.getInt("validate-maxk", 1);
  bool th = A.thorough();
  std::vector<Scenario> scs;
  Bounds b{0, 0, 0, true};
  MonFactory mf;
  if (prop == "C01") {
    scs = scenariosC01(th, A);
    b = Bounds{(int)A.getInt("dk", 0), (int)A.getInt("dc", 0), 0, A.getInt("hash", 1) != 0};
    mf = [](World& w, VSink* s) { return std::vector<Monitor*>{new RecvMonitor(s)}; };
  } else {
    fprintf(stderr, "unknown --prop %s\n", prop.c_str());
    return 2;
  }
  if (A.replay) {
    if (rsc < 0 || rsc >= (long)scs.size()) { printf("bad scenario index\n"); return 2; }
    runScenario(prop, rsc, scs[rsc], b, mf, &rchoices);
    return replayViolated ? 1 : 0;
  }
  for (size_t i = 0; i < scs.size(); i++) {
    if ((int)(i % A.nparts) != A.part) continue;
    if (R.expired()) break;
    validateHash = validateEvery > 0 && (long)(i / A.nparts) % validateEvery == 0 && scs[i].k <= validateMaxK;
    runScenario(prop, i, scs[i], b, mf, nullptr);
    if (R.samples.size() < 3) R.sample("scenario " + scs[i].name + ": foreign=" + (scs[i].foreign.empty() ? "" : ref::hex(scs[i].foreign[0][0].bytes)));
  }
  R.count("scenarios", 0);
  R.write(A.out);
  return 0;
}
