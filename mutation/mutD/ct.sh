#!/bin/bash
# repository test suite on a survivor: ct.sh mNN ...   (plain copy /tmp/mutD_ct of HEAD, own _build)
D=/verif/mutation/mutD; T=/tmp/mutD_ct
for id in "$@"; do
  (cd $T && patch -s -p1 < $D/$id.diff) || { echo "$id patch failed"; continue; }
  nice -n 15 cmake --build $T/_build -j4 > $D/logs/ct_$id.txt 2>&1; b=$?
  if [ $b -ne 0 ]; then res="build-failed"; else
    nice -n 15 ctest --test-dir $T/_build -j4 --timeout 900 >> $D/logs/ct_$id.txt 2>&1; c=$?
    res=$(grep -o '[0-9]*% tests passed, [0-9]* tests failed out of [0-9]*' $D/logs/ct_$id.txt); [ $c -ne 0 ] && res="FAILED: $res"
  fi
  (cd $T && patch -s -R -p1 < $D/$id.diff)
  printf '%s\t%s\n' "$id" "$res" | tee -a $D/ctest.tsv
done
