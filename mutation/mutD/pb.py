#!/usr/bin/env python3
# builds probe.cpp against the tree given by VERIF_REPO (objects of build/alt-*) and runs it: pb.py [section]
import os, subprocess, sys
sys.path.insert(0, "/verif")
from vlib import build
exe = build.build_harness("mutD_probe", ["/verif/mutation/mutD/probe.cpp"], "plain", "full", deps=["engines/cmdmc/mainloop_fixture.h"])
sys.exit(subprocess.run(["nice", "-n", "15", exe] + sys.argv[1:]).returncode)
