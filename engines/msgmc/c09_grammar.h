// C09: bounded grammar of message definitions with a reference codec table per field kind.
// Every (text, bytes) pair below is taken from the type definitions (UCH: unsigned byte; UIN:
// unsigned 16 bit little endian; HEX: hex digit pairs separated by blanks; STR: characters;
// value list; divisor 10; bit fields BI0:1 + BI1:7 that together fill exactly one byte), so every generated input is valid by construction.
#ifndef VERIF_C09_GRAMMAR_H_
#define VERIF_C09_GRAMMAR_H_

#include <stdint.h>
#include <stdio.h>
#include <stdlib.h>
#include <string>
#include <utility>
#include <vector>

namespace c09 {

typedef std::vector<uint8_t> Bytes;

inline std::string toHex(const Bytes& b) {
  std::string o;
  char t[4];
  for (uint8_t c : b) { snprintf(t, sizeof(t), "%02x", c); o += t; }
  return o;
}
inline Bytes hx(const std::string& s) {
  Bytes b;
  for (size_t i = 0; i + 1 < s.size(); i += 2) b.push_back((uint8_t)strtoul(s.substr(i, 2).c_str(), nullptr, 16));
  return b;
}

struct Alt {                       // one element of a kind's value domain
  std::vector<std::string> tokens; // text per (sub)field
  Bytes bytes;
};
struct Kind {
  char c;
  const char* type;                // type column (base type or template name); nullptr = bit pair
  int len;                         // bytes occupied
  bool ignored;                    // no text value
  std::vector<const char*> subNames;  // fixed sub field names (templates sets), empty = use the given name
  std::vector<Alt> dom;
};

static const char* TEMPLATES[] = {
  "onoff,UCH,0=off;1=on",
  "tenth,UCH,10",
  "pair,tenth;onoff",
};

inline const std::vector<Kind>& kinds() {
  static std::vector<Kind> k = {
    {'U', "UCH", 1, false, {}, {{{"0"}, {0x00}}, {{"254"}, {0xfe}}}},
    {'I', "UIN", 2, false, {}, {{{"258"}, {0x02, 0x01}}, {{"65534"}, {0xfe, 0xff}}}},
    {'H', "HEX:2", 2, false, {}, {{{"01 02"}, {0x01, 0x02}}, {{"a9 aa"}, {0xa9, 0xaa}}}},
    {'S', "STR:3", 3, false, {}, {{{"abc"}, {0x61, 0x62, 0x63}}, {{"x z"}, {0x78, 0x20, 0x7a}}}},
    {'O', "onoff", 1, false, {}, {{{"off"}, {0x00}}, {{"on"}, {0x01}}}},
    {'T', "tenth", 1, false, {}, {{{"2.5"}, {0x19}}, {{"0.1"}, {0x01}}}},
    {'P', "pair", 2, false, {"tenth", "onoff"}, {{{"2.5", "on"}, {0x19, 0x01}}, {{"0.1", "off"}, {0x01, 0x00}}}},
    {'B', nullptr, 1, false, {}, {{{"1", "0"}, {0x01}}, {{"0", "5"}, {0x0a}}}},   // BI0:1 + BI1:7 fill one byte
    {'G', "IGN:1", 1, true, {}, {{{}, {0x5a}}, {{}, {0x00}}}},
    {'L', "HEX:12", 12, false, {}, {{{"00 01 02 03 04 05 06 07 08 09 0a 0b"}, {0, 1, 2, 3, 4, 5, 6, 7, 8, 9, 10, 11}},
                                     {{"f0 f1 f2 f3 f4 f5 f6 f7 f8 f9 fa fb"}, {0xf0, 0xf1, 0xf2, 0xf3, 0xf4, 0xf5, 0xf6, 0xf7, 0xf8, 0xf9, 0xfa, 0xfb}}}},
  };
  return k;
}
inline const Kind* kindOf(char c) {
  for (auto& k : kinds()) if (k.c == c) return &k;
  return nullptr;
}

struct Field { const Kind* kind; char part; };   // part: 'd' default, 'm', 's'
typedef std::vector<Field> Layout;

inline std::string layoutStr(const Layout& l) {
  std::string s;
  for (size_t i = 0; i < l.size(); i++) { if (i) s += "-"; s += l[i].kind->c; s += l[i].part; }
  return s;
}
inline bool parseLayout(const std::string& s, Layout* l) {
  l->clear();
  for (size_t i = 0; i + 1 < s.size(); i += 3) {
    const Kind* k = kindOf(s[i]);
    if (!k || (s[i + 1] != 'd' && s[i + 1] != 'm' && s[i + 1] != 's')) return false;
    l->push_back(Field{k, s[i + 1]});
  }
  return true;
}

// message shapes
struct Shape {
  bool write;
  const char* zz;              // zz column; "" = no particular destination
  const char* id;              // id column for plain shapes
  bool defaults;               // PBSB, ZZ and an ID prefix come from a "*r"/"*w" defaults row
  std::vector<const char*> chain;   // chained: part IDs
  int lenMode;                 // chained: 0 all lengths explicit, 1 last implicit, 2 all implicit
  int split;                   // chained: 0 = [1,..,1,rest], 1 = [rest,1,..,1]
  bool thoroughOnly;
  int shortBy = 0;             // chained, all lengths explicit: the lengths add up to this many bytes LESS than the fields
                               // need - such a definition cannot be split "with the defined lengths" without loss and
                               // has to be rejected when loaded
  bool chained() const { return !chain.empty(); }
  bool masterOnly() const {    // broadcast or master destination: all data in the master part
    std::string z = zz; return z == "fe" || z == "10";
  }
};

inline const std::vector<Shape>& shapes() {
  static std::vector<Shape> s;
  if (!s.empty()) return s;
  for (int w = 0; w < 2; w++) {
    for (const char* zz : {"08", "08;09", "", "10", "fe", "08;09;0a"}) {
      if (!w && std::string(zz) == "fe") continue;   // active read of a broadcast is not a meaningful definition
      bool th = std::string(zz) == "08;09;0a";
      s.push_back(Shape{w != 0, zz, "", false, {}, 0, 0, th});
      s.push_back(Shape{w != 0, zz, "0d0100", false, {}, 0, 0, th});
    }
    s.push_back(Shape{w != 0, "08", "0100", true, {}, 0, 0, false});   // + defaults row with ID prefix 0d
    s.push_back(Shape{w != 0, "08", "0200000034", false, {}, 0, 0, false});   // 5 ID bytes: beyond the 4 the lookup key holds unfolded
    s.push_back(Shape{w != 0, "08", "020000003456", false, {}, 0, 0, false}); // 6 ID bytes
    s.push_back(Shape{w != 0, "08", "0d", false, {}, 0, 0, true});
  }
  for (int w = 0; w < 2; w++) {
    std::vector<std::vector<const char*>> chains = {{"0d0100", "0d0200"}, {"01", "02"}, {"0d0100", "0d0200", "0d0300"}};
    for (auto& ch : chains) for (int lm = 0; lm < 3; lm++) for (int sp = 0; sp < 2; sp++) {
      if (w && lm == 2) continue;   // all lengths implicit: nothing defines how a write is split
      s.push_back(Shape{w != 0, "08", "", false, ch, lm, sp, false});
    }
  }
  // explicit part lengths that fall short of the defined fields by 1, 2 or 12 bytes (write: master data; read: slave data)
  for (int w = 0; w < 2; w++) for (int sp = 0; sp < 2; sp++) for (int by : {1, 2, 12}) {
    Shape x{w != 0, "08", "", false, {"0d0100", "0d0200"}, 0, sp, false};
    x.shortBy = by;
    s.push_back(x);
  }
  return s;
}

}  // namespace c09

#endif  // VERIF_C09_GRAMMAR_H_
