"""Check definitions of builder codecA: C05 (decode), C06 (round trip)."""

CHECKS = {}

_DEPS = ["engines/codec/refcodec.h", "engines/codec/codecA_harness.h"]

CHECKS["C05"] = {
    "engine": "codec", "design_ref": "5/C05",
    "level": "exploration",
    "level_text": "x",
    "level_note": "x",
    "technique": "bounded-exhaustive enumeration of the real decode paths against an exact-arithmetic reference codec",
    "rule": "x",
    "assumptions": [],
    "runs": [{
        "harness": "c05_decode", "sources": ["engines/codec/c05_decode.cpp"], "deps": _DEPS,
        "variant": "plain", "libset": "core",
        "quick": {"parts": 16, "deadline": 50, "bounds": "x"},
        "thorough": {"parts": 16, "deadline": 840, "bounds": "x"},
    }],
}

CHECKS["C06"] = dict(CHECKS["C05"], design_ref="5/C06", runs=[{
    "harness": "c06_roundtrip", "sources": ["engines/codec/c06_roundtrip.cpp"], "deps": _DEPS,
    "variant": "plain", "libset": "core",
    "quick": {"parts": 16, "deadline": 50, "bounds": "x"},
    "thorough": {"parts": 16, "deadline": 840, "bounds": "x"},
}])
