#!/bin/bash
# syntax check of one mutant: $1 = id
id=$1
f=$(sed -n '1s/^# m[0-9]*  \([^ ]*\)  .*/\1/p' /verif/mutation/mutD/$id.diff)
d=/tmp/mutD_syn/$id
rm -rf $d; mkdir -p $d
git -C /tmp/mutD_wt archive HEAD src | tar -x -C $d
(cd $d && patch -s -p1 < /verif/mutation/mutD/$id.diff) || { echo "$id PATCHFAIL"; exit 1; }
case $f in
  *.h) tu=src/ebusd/mainloop.cpp;;
  *) tu=$f;;
esac
if nice -n 15 g++ -std=c++11 -fsyntax-only -w -DHAVE_CONFIG_H -D_GNU_SOURCE -I/verif/engines/common/cfg -I$d/src -I$d/src/lib/ebus -I$d/src/lib/utils -I$d/src/ebusd $d/$tu 2> $d/err.txt; then echo "$id ok"; rm -rf $d; else echo "$id COMPILE-ERROR"; head -5 $d/err.txt; fi
