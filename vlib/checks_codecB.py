"""Check definitions of the codec engine, part B: C07 (range-safe writes), C10 (field layout and
independence), C12 (codec results are pure).  Harnesses: engines/codec/c07_range.cpp, c10_layout.cpp,
c12_history.cpp; notes: engines/codec/NOTES_codecB.md."""

CHECKS = {}

CHECKS["C07"] = {
    "engine": "codec", "design_ref": "5/C07",
    "level": "exploration",
    "level_text": "every text of a finite boundary grammar is written through the real DataField::create/write/read "
                  "for every numeric type variant (base type x length x divisor x derived range x value list) and judged "
                  "by an exact decimal reference; the grammar is built around every boundary where a C parser, a cast "
                  "or a bit-width check can wrap (min-1..max+1, 2^k-1..2^k+1, replacement), so that 'no wrap / no "
                  "truncation / no silent change' is decided for the whole finite domain, not sampled",
    "level_note": "trusts the reference (digit-string arithmetic, type table written from the type descriptions, strict "
                  "number grammar with a three-valued verdict); numbers outside the grammar (more than 25 digits, "
                  "exponents beyond +-999) and divisors outside the listed set are not covered; errno is cleared before "
                  "each write (history effects belong to C12); plain -O2 build, so float->int conversions beyond the "
                  "target range show the behaviour of this x86-64 build",
    "technique": "bounded-exhaustive enumeration of the real write/read path against an arbitrary-precision decimal reference",
    "rule": "variants = all numeric base types and lengths (PIN UCH U1L BCD:1-4 HCD:1-4 SCH S1L D1B D1C D2B D2C FLT FLR "
            "EXP EXR UIN UIR U2L U2B SIN SIR S2L S2B U3* S3* ULG ULR U4L U4B SLG SLR S4L S4B BDY HDY, all BIx:n) x extra "
            "divisor {none,10,100,1000,-10,-100} (thorough + 2,5,16,256,1e4,1e6,1e9,-2,-1000,-1e9,3,7) x derived "
            "range {none, 2-4 ranges per type incl. step} + value lists; texts = for each boundary b in {0,+-1,2,42, "
            "min-1,min,max,max+1, configured min/max +-1, replacement (both signs), list keys, +-(2^k-1),+-2^k,+-(2^k+1) "
            "and in-range values shifted by 2^k for k in 7,8,15,16,23,24,31,32,63,64 (thorough: every k 1..65, 80)}, "
            "taken both as value and as raw value (b/divisor, plus half a step): plain, '+', .0 .5 .9 and 25-digit "
            "fractions, 5 exponent spellings, 0x/0X, blanks before/after, 25 kinds of leading/trailing garbage, "
            "superfluous leading zeros (don't-care: decimal or C octal reading), zero padding to 25 digits; plus ~70 "
            "global texts (empty, signs, words, nan/inf spellings, 1e999, 1e-999, 25 nines) and list names with "
            "variations.  Additionally the float entry NumberDataType::getRawValueFromFloat with every boundary as "
            "float (+-0.5, neighbours, NaN, inf).  A case is distinct by (variant, text); success is judged only if "
            "the text is well-formed: value within [min-step, max+step] hard bounds, reference-decoded raw within one "
            "step, real decode within one step plus the decoder's own printing/float rounding.",
    "assumptions": [
        "the representable range of a type is the one stated in its description (e.g. PIN 0000-9999, UCH 0-254)",
        "a value less than one resolution step outside the range may be rounded into it or rejected (don't-care)",
        "texts with surrounding blanks, '12.' / '.5' and superfluous leading zeros may be accepted or rejected; if "
        "accepted the value must be the decimal (or, for leading zeros, the C octal) reading",
        "'-' is the null token: accepted only by types with a replacement value (value lists on types without one: only if it still decodes as '-')",
        "rejecting a well-formed in-range text is outside C07 (round trips are C06)",
        "errno is 0 when a write starts",
        "every enumerated definition variant is valid and must load (config-rejected otherwise)",
    ],
    "runs": [{
        "harness": "c07_range", "sources": ["engines/codec/c07_range.cpp"], "variant": "plain", "libset": "core",
        "deps": ["engines/codec/c07_ref.h"],
        "quick": {"parts": 16, "deadline": 300,
                  "bounds": "918 definitions x ~8300 texts each (k in 7,8,15,16,23,24,31,32,63,64; 6 divisors) + float entry"},
        "thorough": {"parts": 16, "deadline": 800,
                     "bounds": "all k in 1..65,80; 18 divisors; extra ranges; + float entry"},
    }],
}

CHECKS["C10"] = {
    "engine": "codec", "design_ref": "5/C10",
    "level": "exploration",
    "level_text": "every sequence of up to 3 (thorough 4) field definitions over a 31-type alphabet in every master/slave "
                  "split is created with the real DataField::create; ownership of bits is discovered black-box by "
                  "encoding, then length computation / write / read, whole-vs-single-field decoding, single-bit flips "
                  "and value changes are checked against each other for all value combinations: the three "
                  "implementations of the offset bookkeeping are compared on the complete bounded space",
    "level_note": "differential / metamorphic oracle plus two independent rules from the statement (full-byte fields "
                  "without gaps; length = bytes spanned); trusts the byte sizes and bit ranges of the alphabet's types "
                  "(taken from their definitions); length-4 sequences only over a 15-type sub-alphabet with 2 values per "
                  "field; the 6-bit time type TTH is admitted under both readings (bit field / full byte)",
    "technique": "bounded-exhaustive enumeration of field sequences with black-box ownership discovery and metamorphic oracles on the real code",
    "rule": "alphabet: UCH SCH UIN SIN U3N ULG D2C BCD BCD:2 BI0 BI0:3 BI0:7 BI1 BI3:2 BI4:4 BI7 IGN:1 IGN:2 STR:2 HEX:2 "
            "BDA:3 BTI TTM HDY TTH UCH,10 UIN,-10 EXP EXR EXP,10 (+ extended: MIN DTM DAY HDA:3 and a UCH value list, in quick only in sequences of length<=2, thorough <=3; BDA:3/HDA:3 values include a date with undefined day/month) (float values with several significant digits: 3.14159, -1234.56, 0.001, 0.25) and STR:* (only as last field of its part); all sequences of length 1..3 x every "
            "assignment of fields to master/slave part (thorough: + length 4 over UCH UIN D2C BCD BI0 BI0:3 BI3:2 BI7 "
            "IGN:1 STR:2 HDY TTH UCH,10 EXP STR:*); per sequence: all combinations of 3 (length 4: 2) values per field, bit fields "
            "additionally over their full domain for ownership discovery; formats plain, names, JSON, numeric, "
            "JSON+value-name; every single-bit flip of the encoded data of 3 (2) uniform value combinations.  "
            "Field selection (every sequence): getCount(any/master/slave[, name]), getName/getField(index) against the "
            "definition list, and Message::decodeLastData of every single field by name and by message-wide index "
            "(plain, names, JSON) against that field decoded alone.  "
            "Formats plain, names, JSON, numeric, JSON+value-name and JSON without names (numeric keys = index among the "
            "non-ignored fields of the definition).  Long family (both tiers): 10 x UCH ; X ; UCH for every type X, master and "
            "slave (two-digit JSON keys, stream state left by X).  Every sequence starts from the pristine derived-type "
            "cache; a sequence of the universe that DataField::create refuses is a violation (config-rejected); a single "
            "field whose value set no longer exercises its type is a violation (single-field).  "
            "Barrier family (both tiers, cheap structural oracles only): one bit field ; 1..2 full-byte fields ; 2 "
            "(thorough 3) bit fields over all 8 sub-byte and 22 full-byte types, master and slave part (518 144 "
            "sequences of length 4-5 in quick).  "
            "distinct = distinct (sequence, encoded master, encoded slave).",
    "assumptions": [
        "a full-byte field owns whole bytes, a BIx:n field owns bits x..x+n-1 of one byte",
        "sequences whose definitions overlap (bit ranges of two bit fields sharing a byte intersect) keep oracles (1)-(4) but not the single-field encoding comparison",
        "for a sequence ending in a variable-length field getLength(part, n) must equal n when n bytes were written",
        "ignored fields are never counted or addressed: counts per part/name, name and field by index and the decode of one field selected by name or by message-wide index (master part first; only judged when no slave field is defined before a master field) refer to exactly that field",
        "every enumerated definition is valid by the documented format and must load",
        "in JSON without names the key of a field is its index among the non-ignored fields in definition order (the index getName/getField use)",
        "a full-byte field is a layout barrier: the fields behind it are laid out (length, encoding, decoding) exactly as if they stood alone, whatever precedes it",
        "a bit field directly following a bit field with the same first bit starts a new byte (BI0;BI0 and BI0;BI7;BI0 are two bytes, as the repository's test rows fix); it never shares the byte",
        "TTH (6 bits) may be read as a bit field that shares its byte or as a full-byte field; a sequence fails only if it is inconsistent under both readings",
    ],
    "runs": [{
        "harness": "c10_layout", "sources": ["engines/codec/c10_layout.cpp"], "variant": "plain", "libset": "core",
        "quick": {"parts": 16, "deadline": 450, "bounds": "sequences of length<=3 over 31 types, all m/s splits (234 892 definitions)"},
        "thorough": {"parts": 16, "deadline": 1500, "args": ["--maxlen", 4],
                     "bounds": "length<=3 over 31 types + length 4 over 15 types, all m/s splits"},
    }],
}

CHECKS["C12"] = {
    "engine": "codec", "design_ref": "5/C12",
    "level": "model_checking",
    "level_text": "explicit-state breadth-first search over histories of real codec operations with canonical hidden "
                  "state (errno, set of derived-type cache keys, format flags/precision/fill/width of the shared output "
                  "stream); the search runs to the fixpoint of canonical states, so histories of every length over the "
                  "operation alphabet are covered; in every state every operation is executed and compared with its "
                  "result in a pristine forked process (states are expanded in a worker process that restores errno, "
                  "stream format and type cache between operations; short histories and every 32nd state are "
                  "re-expanded in a fresh fork and must agree).  A stateless enumeration of all histories up to length 2 "
                  "(thorough 3) validates the fingerprint, and real forks validate the in-process state restore.  "
                  "Load order: every permutation of the template lines x every permutation of the message lines is "
                  "loaded in its own process and must give identical dumps, lookups, decodes and encodes",
    "level_note": "hidden state outside the fingerprint would only hide behaviour (checked by the stateless pass), it cannot "
                  "create an alarm; operations are 81 (thorough 87) representatives of the type families, not every "
                  "type; load order uses 3x4 (thorough 4x6) mutually independent lines (distinct names and IDs, no "
                  "defaults, no conditions)",
    "technique": "explicit-state BFS over operation histories of the real codec with canonical state hashing to a fixpoint, plus exhaustive permutation of definition lines",
    "rule": "(e) stream state: every registered type (226 variants incl. ,10 / ,-10 / value list) decodes every pattern of a 12-value "
            "byte alphabet (8 values for 4-byte types; thorough: all patterns of 1- and 2-byte types) in 5 formats (plain, JSON, "
            "JSON without names with key -1 and key 11, numeric value-name) on a pristine stream; the formatting states "
            "(flags, precision, fill) left behind are collected and every decode is repeated on a stream preset to each "
            "of them: result and text must be identical.  (d) 19 definition lines incl. BI0 / BI0:2 / BI0:3 and ranges "
            "differing only in the step; a valid line refused when loaded alone is a violation (config-rejected).  "
            "(f) 9 definition blocks = a defaults line of a message type (*r / *w / *u, with and without default fields, one "
            "with fields in both parts, one block with two types) followed by its messages: every ordered selection of <= 3 "
            "(thorough 4) blocks concatenated into one file must make each block's messages dump, encode and decode as when "
            "the block is the only one in the file.  "
            "field kinds plain / value list / constant (=v) / verified constant (==v); constant fields of BTI BDA:3 TTM HEX STR "
            "UCH BCD D2C and inside a multi-field definition are decoded with matching data, different data, data "
            "invalid for the type (incl. errors detected after part of the text was produced) and too short data, "
            "and encoded; "
            "operations: encode of UCH/ULG/SLG/BCD/PIN/BI0:3/D2C/UCH,10/UIN range/EXP/STR/HEX/BDA/BTI/TTM/HDY/value list "
            "with valid, out-of-range, malformed, empty, null, NaN and overflowing (ERANGE) texts; decode of the same "
            "families incl. three multi-field definitions formatted onto the one shared stream; definition + dump "
            "(csv/JSON with min/max/step) with divisor and range derivation.  A state is the canonical string; a "
            "transition is one operation executed in a state; distinct = (state, operation).  Partition 0 reports "
            "the hashed search; all partitions share the stateless enumeration (by first operation) and the "
            "permutations (by index).",
    "assumptions": [
        "a pristine process has errno 0, only the built-in types and a default-formatted stream",
        "independent definition lines: distinct circuit/name and ID, templates not referring to each other; defaults (*) and condition lines are order dependent by design and left out",
        "time() is constant during the load-order observations",
        "the shared stream can be met by a field in exactly the states some other field's decode leaves behind (width is consumed by the next insertion and is not part of them)",
        "definitions with the same base type and divisor but different configured ranges are independent: each behaves (dump incl. min/max/step, encode, decode) as when it is the only definition loaded; a line that is refused on its own takes no part",
    ],
    "runs": [{
        "harness": "c12_history", "sources": ["engines/codec/c12_history.cpp"], "variant": "plain", "libset": "core",
        "quick": {"parts": 16, "deadline": 400,
                  "bounds": "81 operations to fixpoint (5 760 states); stateless length<=2; 3! x 4! load orders; 19 range/divisor/bit-length/step lines in every ordered selection of <=3 (6 156); stream-state part (e)"},
        "thorough": {"parts": 16, "deadline": 800,
                     "bounds": "87 operations to fixpoint; stateless length<=3; 4! x 6! load orders; 19 lines in every ordered selection of <=4; stream-state part (e) with all 1/2-byte patterns"},
    }],
}
