// scratch scenarios for the gap list of mutation/mutC (not part of any engine)
#include <unistd.h>
#include <iostream>
#include <sstream>
#include <string>
#include <vector>
#include <deque>
#include "lib/ebus/message.h"
using namespace ebusd;
using namespace std;

static DataFieldTemplates* templates = nullptr;
namespace ebusd {
class TestResolver : public Resolver {
 public:
  DataFieldTemplates* getTemplates(const string& filename) override { return templates; }
  result_t loadDefinitionsFromConfigPath(FileReader* reader, const string& filename,
      map<string, string>* defaults, string* errorDescription, bool replace = false) override { return RESULT_ERR_NOTFOUND; }
};
}

static MessageMap* mk() {
  MessageMap* m = new MessageMap(false, "", false);
  m->setResolver(new TestResolver());
  return m;
}
static result_t load(MessageMap* m, const string& text, bool replace = false) {
  istringstream in("\n" + text);
  string err;
  result_t r = m->readFromStream(&in, "f.csv", 0, false, nullptr, &err, replace);
  if (r != RESULT_OK) cout << "  load: " << getResultCode(r) << " " << err << endl;
  return r;
}
static string nameOf(Message* x) { return x ? x->getCircuit() + "/" + x->getName() : string("(null)"); }
static MasterSymbolString ms(const string& hex) { MasterSymbolString s; s.parseHex(hex); return s; }
static SlaveSymbolString ss(const string& hex) { SlaveSymbolString s; s.parseHex(hex); return s; }

int main(int argc, char** argv) {
  templates = new DataFieldTemplates();
  string which = argc > 1 ? argv[1] : "all";
  if (which == "all" || which == "g1") {
    MessageMap* m = mk();
    load(m, "r,c,n05,,,08,b509,0d01000203\nr,c,n08,,,08,b509,0e01000200\n");
    MasterSymbolString t = ms("1008b509050e01000200");
    cout << "g1 before remove: find -> " << nameOf(m->find(t)) << endl;
    m->remove(m->find("c", "n05", "", false));
    cout << "g1 after remove(n05): find(0e01000200) -> " << nameOf(m->find(t)) << "  by name: " << nameOf(m->find("c", "n08", "", false)) << endl;
    MessageMap* m2 = mk();
    load(m2, "r,c,n05,,,08,b509,0d01000203\nr,c,n08,,,08,b509,0e01000200\n");
    load(m2, "r,c,n05,,,08,b509,0d01000203,,,UCH\n", true);
    cout << "g1 after replace(n05): find(0e01000200) -> " << nameOf(m2->find(t)) << "  find(0d01000203) -> " << nameOf(m2->find(ms("1008b509050d01000203"))) << endl;
  }
  if (which == "all" || which == "g2") {
    MessageMap* m = mk();
    load(m, "r,c,ref,,,08,b509,0d0000,f0,,UCH\n*[k],c,ref,,f0,,1;3\n[k=1]r,c,g1,,,08,b509,0d0001,,,UCH\n[k=3]r,c,g3,,,08,b509,0d0002,,,UCH\n");
    string err;
    result_t r = m->resolveConditions(false, &err);
    cout << "g2 resolveConditions -> " << getResultCode(r) << " " << err << endl;
    Message* ref = m->find("c", "ref", "", false);
    deque<Message*> q;
    m->findAll("c", "g1", "*", true, true, true, true, true, false, 0, 0, false, &q);
    m->findAll("c", "g3", "*", true, true, true, true, true, false, 0, 0, false, &q);
    ref->storeLastData(ms("1008b509030d0000"), ss("0101"));
    cout << "g2 ref=1: g1 available=" << q[0]->isAvailable() << " g3 available=" << q[1]->isAvailable() << " (expected 1 0)" << endl;
    sleep(1);
    ref->storeLastData(ms("1008b509030d0000"), ss("0103"));
    cout << "g2 ref=3: g1 available=" << q[0]->isAvailable() << " g3 available=" << q[1]->isAvailable() << " (expected 0 1)" << endl;
  }
  if (which == "all" || which == "g3") {
    for (int order = 0; order < 2; order++) {
      MessageMap* m = mk();
      string bad = order == 0 ? "a" : "z", good = "m";
      load(m, "r,c,ref,,,08,b509,0d0000,f0,,UCH\n*[" + bad + "],c,nomsg,,,,1\n*[" + good + "],c,ref,,f0,,1\n");
      string err;
      result_t r = m->resolveConditions(false, &err);
      cout << "g3 unresolvable [" << bad << "] + resolvable [" << good << "]: resolveConditions -> " << getResultCode(r) << " (expected an error)" << endl;
    }
  }
  if (which == "all" || which == "g4") {
    MessageMap* m = mk();
    load(m, "r,c,ref,,,08,b509,0d0000,f0,,ULG\n*[k],c,ref,,f0,,>=3\n[k]r,c,g,,,08,b509,0d0001,,,UCH\n");
    string err;
    m->resolveConditions(false, &err);
    Message* ref = m->find("c", "ref", "", false);
    deque<Message*> q;
    m->findAll("c", "g", "*", true, true, true, true, true, false, 0, 0, false, &q);
    ref->storeLastData(ms("1008b509030d0000"), ss("0470110100"));
    cout << "g4 ULG=70000, [k>=3]: available=" << q[0]->isAvailable() << " (expected 1)" << endl;
  }
  if (which == "all" || which == "g5") {
    MessageMap* m = mk();
    load(m, "r1,c,m0,,,08,b509,0d0000,,,UCH\n");
    Message* x = m->find("c", "m0", "", false);
    x->setPollPriority(9);
    cout << "g5 setPollPriority(9) on a message no condition uses: priority=" << x->getPollPriority() << " (expected 9)" << endl;
  }
  if (which == "all" || which == "g6") {
    MessageMap* m = mk();
    Message* s8 = m->getScanMessage(0x08);
    Message* f = m->find(ms("1008070400"));
    cout << "g6 find(10 08 07 04 00) -> " << (f == s8 ? "scan.08" : f == m->getScanMessage() ? "generic scan message" : nameOf(f)) << " (expected scan.08)" << endl;
  }
  if (which == "all" || which == "g7") {
    ostringstream o;
    AttributedItem::dumpString(false, "x,y\"", &o);
    o << ",next\nsecond,line\n";
    istringstream in(o.str());
    vector<string> row;
    unsigned int lineNo = 0;
    FileReader::splitFields(&in, &row, &lineNo, nullptr, nullptr);
    cout << "g7 dumpString(x,y\") + \",next\" -> " << o.str().substr(0, o.str().find('\n')) << "  splits into " << row.size() << " field(s):";
    for (auto& f : row) cout << " [" << f << "]";
    cout << " (expected [x,y\"] [next])" << endl;
  }
  if (which == "all" || which == "g8") {
    MessageMap* m = mk();
    load(m, "r,c,m,,,08,b509,0d,a,m,UCH,,,,b,s,UCH\n");
    Message* x = m->find("c", "m", "", false);
    x->storeLastData(ms("1008b509020d01"), ss("0102"));
    for (int i = 0; i < 2; i++) {
      ostringstream o;
      result_t r = x->decodeLastData(pt_any, false, nullptr, i, OF_NONE, &o);
      cout << "g8 decode field index " << i << " -> " << getResultCode(r) << " '" << o.str() << "' (expected '" << (i + 1) << "')" << endl;
    }
  }
  return 0;
}
