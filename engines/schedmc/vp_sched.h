// Cooperative scheduler: the "threads" of an execution are user-level contexts (ucontext) inside one
// OS thread, so exactly one runs at a time and every hand-off is decided by the explorer at the
// hooked synchronisation operations.  Mutex ownership and condition wait sets are modelled here.
#ifndef VP_SCHED_H_
#define VP_SCHED_H_
#include <pthread.h>
#include <ucontext.h>
#include <functional>
#include <map>
#include <string>
#include <vector>
#include "explorer.h"

namespace vps {

enum { K_PREEMPT = 4, K_TIMEOUT = 3 };  // K_TIMEOUT uses the late-request budget kind of the bus world, which has no late requests or faults under the scheduler; K_PREEMPT: budget kind of the explorer used for preemptions (1..3 belong to the bus world)

struct ThreadCtl {
  int id;
  ucontext_t ctx;
  char* stack = nullptr;
  size_t stackSize = 0;
  enum St { RUNNABLE, BLOCKED_MUTEX, WAIT_COND, WAIT_COND_TIMED, DONE } st = RUNNABLE;
  void* obj = nullptr;       // mutex or condition blocked on
  bool signalled = false, timedOut = false;
  int64_t deadlineUs = 0;
  std::function<void()> body;
  const char* name = "";
  long points = 0;
  int timeouts = 0;
  void* fakeStack = nullptr;  // ASan fiber bookkeeping
};

class Sched {
 public:
  vp::Explorer* ex = nullptr;
  std::vector<ThreadCtl*> threads;
  int current = -1;
  std::map<void*, int> mutexOwner;   // mutex -> owning thread id
  bool deadlock = false, stepCap = false;
  long steps = 0, maxSteps = 20000;
  std::vector<std::string> trace;    // replay log
  bool logging = false;
  ucontext_t mainCtx;
  void* mainFake = nullptr;

  ~Sched();
  int spawn(const char* name, const std::function<void()>& body);
  void runAll();                     // called by the main context: runs until all threads are done or stuck
  // scheduling point of the current thread; yielding = the thread waits for I/O here, so the default is to
  // run the other enabled threads first (deviating from the default costs one preemption unit either way)
  void point(const char* what, bool yielding = false);
  // modelled operations
  int mutexLock(pthread_mutex_t* m);
  int mutexUnlock(pthread_mutex_t* m);
  int condWait(pthread_cond_t* c, pthread_mutex_t* m, const struct timespec* abstime);
  int condSignal(pthread_cond_t* c, bool all);
  void fingerprint(std::string* o) const;
  ThreadCtl* self() { return current >= 0 ? threads[current] : nullptr; }
 private:
  void switchTo(int next);
  bool enabled(const ThreadCtl* t) const;
  int pickNext(bool selfEnabled, bool yielding = false);
  bool timeoutChoices = false;  // offer 'a timed wait expires although others can run' (budget kind K_TIMEOUT)
  int timeoutsFired = 0;
  void blockAndYield();
  static void tramp(unsigned lo, unsigned hi);
  void finishCurrent();
};

extern Sched* g_sched;

}  // namespace vps
#endif
