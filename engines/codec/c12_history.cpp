// C12: codec results are pure - independent of call history and of load order.
//  (a) breadth-first search over histories of codec operations; the canonical hidden state is
//      (errno, set of derived-type cache keys, formatting state of the shared output stream);
//      in every reached state every operation is probed and compared with its result in a pristine
//      forked process; the search closes at a fixpoint of canonical states.
//  (b) a stateless enumeration of all histories up to a small length validates the fingerprint.
//  (c) every permutation of k independent definition lines (templates / messages) must give
//      identical dumps, lookups, decodes and encodes.
#include <errno.h>
#include <sys/wait.h>
#include <unistd.h>
#include <algorithm>
#include <deque>
#include <functional>
#include <sstream>
#include <tuple>
#include "lib/ebus/data.h"
#include "lib/ebus/datatype.h"
#include "lib/ebus/message.h"
#include "lib/ebus/result.h"
#include "lib/ebus/symbol.h"
#include "vout.h"

using namespace ebusd;
using std::string;
using std::vector;

// the code under test reads the clock when data is stored: constant virtual time
extern "C" time_t time(time_t* t) { if (t) *t = 1700000000; return 1700000000; }

static vp::Result R;

// ------------------------------------------------------------------------------------ operations
struct FieldRow { const char* type; const char* div; const char* range; };
struct Op {
  const char* id;
  char kind;                // 'E' encode text, 'D' decode bytes, 'C' create + dump definition
  vector<FieldRow> fields;  // definition (one or more fields, all in the master part)
  const char* input;        // text (E) or hex bytes (D) or "" / "json" (C)
  const char* cls;          // signature class of the operation
};
static vector<Op> g_ops;

static void initOps(bool thorough) {
  auto E = [&](const char* id, FieldRow f, const char* in, const char* cls) { g_ops.push_back(Op{id, 'E', {f}, in, cls}); };
  auto D = [&](const char* id, vector<FieldRow> f, const char* in, const char* cls) { g_ops.push_back(Op{id, 'D', f, in, cls}); };
  auto C = [&](const char* id, vector<FieldRow> f, const char* in, const char* cls) { g_ops.push_back(Op{id, 'C', f, in, cls}); };
  // encode: plain integer types (valid, out of range, malformed, empty, null, overflowing the C parsers)
  E("eUCH5", {"UCH", "", ""}, "5", "encode-int");
  E("eUCH300", {"UCH", "", ""}, "300", "encode-int");
  E("eUCHabc", {"UCH", "", ""}, "abc", "encode-int");
  E("eUCHempty", {"UCH", "", ""}, "", "encode-int");
  E("eUCHnull", {"UCH", "", ""}, "-", "encode-int");
  E("eULGovf", {"ULG", "", ""}, "99999999999999999999", "encode-int");
  E("eULGmax", {"ULG", "", ""}, "4294967294", "encode-int");
  E("eSLGovf", {"SLG", "", ""}, "-99999999999999999999", "encode-int");
  E("eSLGneg", {"SLG", "", ""}, "-5", "encode-int");
  E("eBCD42", {"BCD", "", ""}, "42", "encode-int");
  E("ePIN", {"PIN", "", ""}, "1234", "encode-int");
  E("eBI5", {"BI0:3", "", ""}, "5", "encode-int");
  // encode: integer types with divisor (parsed as floating point)
  E("eD2C", {"D2C", "", ""}, "1.5", "encode-int-divisor");
  E("eD2Cnan", {"D2C", "", ""}, "nan", "encode-int-divisor");
  E("eD2Covf", {"D2C", "", ""}, "1e999", "encode-int-divisor");
  E("eD2Cunf", {"D2C", "", ""}, "1e-999", "encode-int-divisor");
  E("eUCHd10", {"UCH", "10", ""}, "2.5", "encode-int-divisor");
  // (definitions that share base type and divisor but differ in range are covered by part (d): every further
  // derived cache key doubles the number of canonical states of the hashed search)
  E("eUINrng", {"UIN", "", "10-100"}, "50", "encode-int-range");
  // encode: float type
  E("eEXP", {"EXP", "", ""}, "1.5", "encode-float");
  E("eEXPnan", {"EXP", "", ""}, "nan", "encode-float");
  E("eEXPovf", {"EXP", "", ""}, "1e999", "encode-float");
  // encode: strings, dates, times, lists
  E("eSTR", {"STR:5", "", ""}, "hello", "encode-string");
  E("eHEX", {"HEX:2", "", ""}, "0a 1b", "encode-string");
  E("eHEXbad", {"HEX:2", "", ""}, "zz", "encode-string");
  E("eBDA", {"BDA", "", ""}, "26.10.2014", "encode-datetime");
  E("eBDAbad", {"BDA", "", ""}, "32.13.2014", "encode-datetime");
  E("eBTI", {"BTI", "", ""}, "21:04:58", "encode-datetime");
  E("eTTM", {"TTM", "", ""}, "12:30", "encode-datetime");
  E("eHDY", {"HDY", "", ""}, "Sun", "encode-list");
  E("eHDYbad", {"HDY", "", ""}, "Xyz", "encode-list");
  E("eLIST", {"UCH", "0=off;1=on", ""}, "on", "encode-list");
  E("eLISTnum", {"UCH", "0=off;1=on", ""}, "1", "encode-list");
  E("eLISTovf", {"UCH", "0=off;1=on", ""}, "99999999999999999999", "encode-list");
  // decode
  D("dUCH", {{"UCH", "", ""}}, "05", "decode-int");
  D("dUCHnull", {{"UCH", "", ""}}, "ff", "decode-int");
  D("dD2C", {{"D2C", "", ""}}, "2001", "decode-int-divisor");
  D("dUCHd10", {{"UCH", "10", ""}}, "19", "decode-int-divisor");
  D("dUCHd2", {{"UCH", "2", ""}}, "19", "decode-int-divisor");
  D("dULGm10", {{"ULG", "-10", ""}}, "40e20100", "decode-int-divisor");
  D("dEXP", {{"EXP", "", ""}}, "0000c03f", "decode-float");
  D("dPIN", {{"PIN", "", ""}}, "0123", "decode-int");
  D("dHEX", {{"HEX:2", "", ""}}, "0a1b", "decode-string");
  D("dSTR", {{"STR:5", "", ""}}, "68656c6c6f", "decode-string");
  D("dBDA", {{"BDA", "", ""}}, "26100714", "decode-datetime");
  D("dBTI", {{"BTI", "", ""}}, "580421", "decode-datetime");
  D("dBCDbad", {{"BCD", "", ""}}, "a0", "decode-int");
  D("dSLG", {{"SLG", "", ""}}, "fbffffff", "decode-int");
  D("dHDY", {{"HDY", "", ""}}, "07", "decode-list");
  // several fields formatted onto the one shared stream
  D("dHEXUCH", {{"HEX:2", "", ""}, {"UCH", "", ""}, {"BDA:3", "", ""}}, "0a1b0c261014", "decode-multi");
  D("dPINmix", {{"PIN", "", ""}, {"UCH", "", ""}, {"D2C", "", ""}, {"STR:2", "", ""}}, "0123112001" "6162", "decode-multi");
  D("dBTIULG", {{"BTI", "", ""}, {"ULG", "-10", ""}, {"EXP", "", ""}, {"UIN", "", ""}}, "580421" "40e20100" "0000c03f" "1000", "decode-multi");
  // type derivation and definition dump
  C("cUCHd10", {{"UCH", "10", ""}}, "", "derive-divisor");
  C("cD2Cd10", {{"D2C", "10", ""}}, "json", "derive-divisor");
  C("cUINrng", {{"UIN", "", "10-100"}}, "json", "derive-range");
  C("cUINrng2", {{"UIN", "", "20-200:10"}}, "json", "derive-range");
  C("cD2Crng", {{"D2C", "", "-1.5-2.5:0.5"}}, "json", "derive-range");
  C("cD2Cneg", {{"D2C", "-10", ""}}, "", "derive-divisor");
  // constant fields (=v) and verified constant fields (==v) of every type family, with matching data,
  // well-formed but different data, data that is invalid for the type (error detected before / after the type
  // has produced part of its text), and too short data
  D("dKbtiOk", {{"BTI", "==21:04:58", ""}}, "580421", "decode-constant");
  D("dKbtiDiff", {{"BTI", "==21:04:58", ""}}, "590421", "decode-constant");
  D("dKbtiBad", {{"BTI", "==21:04:58", ""}}, "605923", "decode-constant");
  D("dKbtiShort", {{"BTI", "==21:04:58", ""}}, "5804", "decode-constant");
  D("dKbdaOk", {{"BDA:3", "=26.10.2014", ""}}, "261014", "decode-constant");
  D("dKbdaBad", {{"BDA:3", "=26.10.2014", ""}}, "261314", "decode-constant");
  D("dKbdaBcd", {{"BDA:3", "=26.10.2014", ""}}, "2610a4", "decode-constant");
  D("dKttmBad", {{"TTM", "==12:30", ""}}, "95", "decode-constant");
  D("dKhexOk", {{"HEX:2", "==48 61", ""}}, "4861", "decode-constant");
  D("dKhexDiff", {{"HEX:2", "==48 61", ""}}, "4862", "decode-constant");
  D("dKhexPlain", {{"HEX:2", "=48 61", ""}}, "4862", "decode-constant");
  D("dKstrOk", {{"STR:2", "==ab", ""}}, "6162", "decode-constant");
  D("dKuchOk", {{"UCH", "==5", ""}}, "05", "decode-constant");
  D("dKuchNull", {{"UCH", "==5", ""}}, "ff", "decode-constant");
  D("dKbcdBad", {{"BCD", "=42", ""}}, "a0", "decode-constant");
  D("dKd2cOk", {{"D2C", "==18.00", ""}}, "2001", "decode-constant");
  D("dKmix", {{"UCH", "", ""}, {"BTI", "==21:04:58", ""}, {"HEX:1", "=0a", ""}, {"D2C", "", ""}}, "11" "580421" "0a" "2001", "decode-multi-constant");
  D("dKmixBad", {{"UCH", "", ""}, {"BTI", "==21:04:58", ""}, {"HEX:1", "=0a", ""}, {"D2C", "", ""}}, "11" "586021" "0a" "2001", "decode-multi-constant");
  D("dUCHshort", {{"UCH", "", ""}}, "", "decode-int");
  D("dBTIbad", {{"BTI", "", ""}}, "605923", "decode-datetime");
  D("dBDAbad", {{"BDA:3", "", ""}}, "261314", "decode-datetime");
  E("eKuch", {"UCH", "=5", ""}, "", "encode-constant");
  E("eKbti", {"BTI", "==21:04:58", ""}, "", "encode-constant");
  E("eKbad", {"UCH", "=300", ""}, "", "encode-constant");
  if (thorough) {
    E("eSINd100", {"SIN", "100", ""}, "-1.25", "encode-int-divisor");
    E("eFLT", {"FLT", "", ""}, "0.001", "encode-int-divisor");
    D("dSINd100", {{"SIN", "100", ""}}, "83ff", "decode-int-divisor");
    C("cULGm10", {{"ULG", "-10", ""}}, "json", "derive-divisor");
    C("cEXPrng", {{"EXP", "", "-1.5-2.5"}}, "json", "derive-range");
    E("eEXPrng", {"EXP", "", "-1.5-2.5"}, "2.0", "encode-float");
  }
}
static int opIndex(const string& id) {
  for (size_t i = 0; i < g_ops.size(); i++) if (id == g_ops[i].id) return (int)i;
  return -1;
}

// ------------------------------------------------------------------------------------ process-local state
static DataFieldTemplates* g_templates = nullptr;
static std::ostringstream* g_out = nullptr;   // the shared output stream of this process
static std::set<string> g_baseKeys;           // type list keys of a pristine process

static string streamState(std::ostream& o) {
  char b[96];
  snprintf(b, sizeof(b), "flags=%x,prec=%d,fill=%02x,width=%d", (unsigned)o.flags(), (int)o.precision(), (unsigned)(unsigned char)o.fill(), (int)o.width());
  return b;
}
static string cacheState() {
  string s;
  for (auto it = DataTypeList::getInstance()->begin(); it != DataTypeList::getInstance()->end(); ++it)
    if (!g_baseKeys.count(it->first)) { if (!s.empty()) s += " "; s += it->first; }
  return s;
}
static int g_errno = 0;  // errno as left behind by the last operation
static string canonicalState() {
  return "errno=" + std::to_string(g_errno) + ";types={" + cacheState() + "};stream=" + streamState(*g_out);
}

static vector<unsigned char> unhexBytes(const string& h) {
  vector<unsigned char> v;
  for (size_t i = 0; i + 1 < h.size(); i += 2) v.push_back((unsigned char)strtoul(h.substr(i, 2).c_str(), 0, 16));
  return v;
}

// executes one operation in this process; returns "result|output"
static string execOp(const Op& op) {
  errno = g_errno;  // the harness' own library calls must not disturb what the codec left behind
  vector<std::map<string, string>> rows(op.fields.size());
  for (size_t i = 0; i < op.fields.size(); i++) {
    rows[i]["name"] = "f" + std::to_string(i);
    rows[i]["part"] = "m";
    rows[i]["type"] = op.fields[i].type;
    if (op.fields[i].div[0]) rows[i][strchr(op.fields[i].div, '=') ? "values" : "divisor"] = op.fields[i].div;
    if (op.fields[i].range[0]) rows[i]["range"] = op.fields[i].range;
  }
  const DataField* f = nullptr;
  string err;
  result_t r = DataField::create(true, false, false, MAX_POS, g_templates, &rows, &err, &f);
  string res;
  if (r != RESULT_OK) {
    res = string("create:") + getResultCode(r) + "|";
  } else if (op.kind == 'E') {
    MasterSymbolString m;
    for (unsigned char c : {0x10, 0xfe, 0xff, 0xff, 0x00}) m.push_back(c);
    std::istringstream in(op.input);
    r = f->write(UI_FIELD_SEPARATOR, 0, &in, &m, nullptr);
    res = string(getResultCode(r)) + "|";
    if (r == RESULT_OK) res += vp::hex(m.data() + 5, m.size() - 5);
  } else if (op.kind == 'D') {
    MasterSymbolString m;
    vector<unsigned char> by = unhexBytes(op.input);
    for (unsigned char c : {0x10, 0xfe, 0xff, 0xff}) m.push_back(c);
    m.push_back((unsigned char)by.size());
    for (unsigned char c : by) m.push_back(c);
    g_out->str(""); g_out->clear();
    r = f->read(m, 0, false, nullptr, -1, OF_NAMES, -1, g_out);
    res = string(getResultCode(r)) + "|" + g_out->str();
    g_out->str("");
    r = f->read(m, 0, false, nullptr, -1, OF_JSON | OF_NAMES, -1, g_out);
    res += string("|") + getResultCode(r) + "|" + g_out->str();
  } else {
    g_out->str(""); g_out->clear();
    f->dump(false, op.input[0] ? (OF_JSON | OF_ALL_ATTRS) : OF_NONE, g_out);
    res = string("ok|") + g_out->str();
  }
  g_errno = errno;
  if (f) delete f;
  g_out->str("");
  return res;
}

static void initProcessState() {
  g_templates = new DataFieldTemplates();
  g_out = new std::ostringstream();
  for (auto it = DataTypeList::getInstance()->begin(); it != DataTypeList::getInstance()->end(); ++it) g_baseKeys.insert(it->first);
  g_errno = 0;
}

// snapshot / restore of the canonical hidden state inside one process (used to probe several operations
// from the same state without forking for each; validated against real forks, see main)
struct Snap { int err; std::ostringstream fmt; std::set<string> keys; };
static void snapshot(Snap* s) {
  s->err = g_errno;
  s->fmt.copyfmt(*g_out);
  s->keys.clear();
  for (auto it = DataTypeList::getInstance()->begin(); it != DataTypeList::getInstance()->end(); ++it) s->keys.insert(it->first);
}
static void restore(const Snap& s) {
  g_errno = s.err;
  g_out->copyfmt(s.fmt);
  DataTypeList* L = DataTypeList::getInstance();
  for (auto it = L->m_typesById.begin(); it != L->m_typesById.end();) {
    if (s.keys.count(it->first)) { ++it; continue; }
    const DataType* dt = it->second;
    L->m_cleanupTypes.remove(dt);
    delete dt;
    it = L->m_typesById.erase(it);
  }
}

// ------------------------------------------------------------------------------------ forked execution
struct Probe { string obs; string state; };
struct Run { bool ok = false; string stateAfterHistory; vector<Probe> probes; };

static string hexs(const string& s) { return vp::hex((const unsigned char*)s.data(), s.size()); }
static string unhexs(const string& h) { auto v = unhexBytes(h); return string(v.begin(), v.end()); }

enum Fix { FIX_NONE = 0, FIX_ERRNO = 1, FIX_STREAM = 2 };

// child: replay the history, report the canonical state, then run each probe in its own grandchild
static Run runHistory(const vector<int>& hist, const vector<int>& probes, Fix fix = FIX_NONE, bool forkEachProbe = true) {
  Run run;
  int fd[2];
  if (pipe(fd) != 0) return run;
  fflush(stdout);
  pid_t pid = fork();
  if (pid == 0) {
    close(fd[0]);
    FILE* w = fdopen(fd[1], "w");
    g_errno = 0;
    for (int h : hist) execOp(g_ops[h]);
    if (fix == FIX_ERRNO) g_errno = 0;
    if (fix == FIX_STREAM) { std::ostringstream fresh; g_out->copyfmt(fresh); }
    string before = canonicalState();
    fprintf(w, "S %s\n", hexs(before).c_str());
    fflush(w);
    if (!forkEachProbe) {
      Snap snap;
      snapshot(&snap);
      for (size_t i = 0; i < probes.size(); i++) {
        string obs = execOp(g_ops[probes[i]]);
        fprintf(w, "P %zu %s %s\n", i, hexs(obs).c_str(), hexs(canonicalState()).c_str());
        restore(snap);
        if (canonicalState() != before) { fprintf(w, "R %zu\n", i); fflush(w); _exit(0); }
      }
      fflush(w);
      _exit(0);
    }
    for (size_t i = 0; i < probes.size(); i++) {
      pid_t g = fork();
      if (g == 0) {
        string obs = execOp(g_ops[probes[i]]);
        fprintf(w, "P %zu %s %s\n", i, hexs(obs).c_str(), hexs(canonicalState()).c_str());
        fflush(w);
        _exit(0);
      }
      int st = 0;
      waitpid(g, &st, 0);
      if (!WIFEXITED(st) || WEXITSTATUS(st) != 0) { fprintf(w, "X %zu %d\n", i, st); fflush(w); }
    }
    fflush(w);
    _exit(0);
  }
  close(fd[1]);
  string all;
  char buf[65536];
  ssize_t nr;
  while ((nr = read(fd[0], buf, sizeof(buf))) > 0) all.append(buf, (size_t)nr);
  close(fd[0]);
  int st = 0;
  waitpid(pid, &st, 0);
  run.probes.resize(probes.size());
  std::istringstream is(all);
  string line;
  size_t got = 0;
  while (std::getline(is, line)) {
    std::istringstream ls(line);
    string tag; ls >> tag;
    if (tag == "S") { string h; ls >> h; run.stateAfterHistory = unhexs(h); }
    else if (tag == "P") { size_t i; string a, b; ls >> i >> a >> b; if (a == "") {} run.probes[i].obs = unhexs(a); run.probes[i].state = unhexs(b); got++; }
    else if (tag == "R") { got = 0; break; }
    else if (tag == "X") { size_t i; int code; ls >> i >> code; run.probes[i].obs = "CRASH status " + std::to_string(code); run.probes[i].state = "crashed"; got++; }
  }
  run.ok = WIFEXITED(st) && WEXITSTATUS(st) == 0 && got == probes.size();
  R.transitions += hist.size() + probes.size();
  return run;
}

static string histStr(const vector<int>& h) {
  string s;
  for (size_t i = 0; i < h.size(); i++) { if (i) s += ","; s += g_ops[h[i]].id; }
  return s;
}

// A persistent worker process expands many states without a fork per state: before each history it
// restores the pristine snapshot taken right after its start (errno, stream format, type cache).
// It is only used where results are cross-checked against freshly forked processes (see main).
struct Worker { pid_t pid = -1; FILE* to = nullptr; FILE* from = nullptr; };
static Worker g_worker;
static void workerLoop(int rfd, int wfd) {
  FILE* in = fdopen(rfd, "r");
  FILE* w = fdopen(wfd, "w");
  Snap pristine;
  g_errno = 0;
  snapshot(&pristine);
  char* line = nullptr;
  size_t cap = 0;
  while (getline(&line, &cap, in) > 0) {
    vector<int> hist;
    for (char* tok = strtok(line, " \n"); tok; tok = strtok(nullptr, " \n")) hist.push_back(atoi(tok));
    restore(pristine);
    for (int h : hist) execOp(g_ops[h]);
    string before = canonicalState();
    fprintf(w, "S %s\n", hexs(before).c_str());
    Snap snap;
    snapshot(&snap);
    for (size_t i = 0; i < g_ops.size(); i++) {
      string obs = execOp(g_ops[i]);
      fprintf(w, "P %zu %s %s\n", i, hexs(obs).c_str(), hexs(canonicalState()).c_str());
      restore(snap);
      if (canonicalState() != before) { fprintf(w, "R %zu\n", i); break; }
    }
    fprintf(w, "E\n");
    fflush(w);
  }
  _exit(0);
}
static bool startWorker() {
  int a[2], b[2];
  if (pipe(a) != 0 || pipe(b) != 0) return false;
  fflush(stdout);
  pid_t pid = fork();
  if (pid == 0) { close(a[1]); close(b[0]); workerLoop(a[0], b[1]); }
  close(a[0]); close(b[1]);
  g_worker.pid = pid; g_worker.to = fdopen(a[1], "w"); g_worker.from = fdopen(b[0], "r");
  return true;
}
static void stopWorker() {
  if (g_worker.pid < 0) return;
  fclose(g_worker.to);
  int st; waitpid(g_worker.pid, &st, 0);
  fclose(g_worker.from);
  g_worker.pid = -1;
}
// expands one state (all operations probed) in the worker
static Run runInWorker(const vector<int>& hist) {
  Run run;
  if (g_worker.pid < 0 && !startWorker()) return run;
  string req;
  for (int h : hist) req += std::to_string(h) + " ";
  fprintf(g_worker.to, "%s\n", req.c_str());
  fflush(g_worker.to);
  run.probes.resize(g_ops.size());
  char* line = nullptr; size_t cap = 0; size_t got = 0; bool ended = false;
  while (getline(&line, &cap, g_worker.from) > 0) {
    std::istringstream ls(line);
    string tag; ls >> tag;
    if (tag == "S") { string h; ls >> h; run.stateAfterHistory = unhexs(h); }
    else if (tag == "P") { size_t i; string x, y; ls >> i >> x >> y; run.probes[i].obs = unhexs(x); run.probes[i].state = unhexs(y); got++; }
    else if (tag == "R") { got = 0; }
    else if (tag == "E") { ended = true; break; }
  }
  free(line);
  run.ok = ended && got == g_ops.size();
  R.transitions += hist.size() + g_ops.size();
  return run;
}

// which hidden component makes the probe deviate: clear it and look whether the baseline comes back
static std::map<string, string> g_causeMemo;
static string diagnose(const vector<int>& hist, int probe, const string& state, const string& baseline) {
  size_t a = state.find(";types="), b = state.find(";stream=");
  string memoKey = string(g_ops[probe].id) + "|" + state.substr(0, a) + "|" + state.substr(b) + (state.find("types={}") == string::npos ? "|derived" : "|none");
  auto it = g_causeMemo.find(memoKey);
  if (it != g_causeMemo.end()) return it->second;
  string cause = "unexplained";
  Run r1 = runHistory(hist, {probe}, FIX_ERRNO);
  if (r1.ok && r1.probes[0].obs == baseline) {
    int e = atoi(state.c_str() + 6);
    cause = e == ERANGE ? "errno-after-ERANGE" : (e == EINVAL ? "errno-after-EINVAL" : "errno-left-set");
  } else {
    Run r2 = runHistory(hist, {probe}, FIX_STREAM);
    if (r2.ok && r2.probes[0].obs == baseline) cause = "stream-format-left-set";
    else if (state.find("types={}") == string::npos) cause = "type-cache-or-other";
  }
  g_causeMemo[memoKey] = cause;
  return cause;
}

static vector<string> g_baseline;

static void reportDeviation(const vector<int>& hist, int p, const string& state, const string& obs) {
  string cause = diagnose(hist, p, state, g_baseline[p]);
  R.violation(string("C12/history-dependent/") + cause + "/" + g_ops[p].cls,
              string("after [") + histStr(hist) + "] (state " + state + ") " + g_ops[p].id + " gives '" + vp::jsonEscape(obs) + "', pristine '" + vp::jsonEscape(g_baseline[p]) + "'",
              "k=hist;h=" + histStr(hist) + ";p=" + g_ops[p].id);
}

// ------------------------------------------------------------------------------------ (c) load order
struct MsgLine { const char* line; const char* circuit; const char* name; bool isWrite, isPassive; const char* master; const char* slave; const char* input; };
static const char* TEMPLATE_LINES[] = {
  "tempa,D2C,,C,temperature",
  "pct,UCH,2,%,percent",
  "mode,UCH,0=off;1=on;2=auto,,operating mode",
  "pres,UIN,100,bar,pressure",
};
static const MsgLine MESSAGE_LINES[] = {
  {"r,cir,ma,comment a,,08,b509,0d0100,,,tempa", "cir", "ma", false, false, "3108b509030d0100", "022001", ""},
  {"r,cir,mb,,,08,b509,0d0200,x,,UCH,10,,,y,,pct", "cir", "mb", false, false, "3108b509030d0200", "021932", ""},
  {"w,cir,mc,,,08,b509,0e0300,,,mode", "cir", "mc", true, false, "3108b509040e030002", "00", "auto"},
  {"r,cir,md,,,08,b509,0d0400,a,,D2C,10,,,b,,tempa,10", "cir", "md", false, false, "3108b509030d0400", "0420012001", ""},
  {"u,cir,me,,,08,b509,0d0500,p,,pres,,,,q,,UIN,100", "cir", "me", false, true, "1008b509030d0500", "0410271027", ""},
  {"r,cir2,mf,,,15,b509,0d0600,v,,BI0:3,,,,w,,BI3:2,,,,z,,ULG,-10", "cir2", "mf", false, false, "3115b509030d0600", "050d40e20100", ""},
};

class PermResolver : public Resolver {
 public:
  explicit PermResolver(DataFieldTemplates* t) : m_t(t) {}
  DataFieldTemplates* getTemplates(const string&) override { return m_t; }
  result_t loadDefinitionsFromConfigPath(FileReader*, const string&, std::map<string, string>*, string*, bool) override { return RESULT_ERR_NOTFOUND; }
 private:
  DataFieldTemplates* m_t;
};

// loads the lines in the given order in this process and returns the observation
static string loadAndObserve(const vector<int>& tperm, const vector<int>& mperm) {
  std::ostringstream obs;
  errno = 0;
  DataFieldTemplates* templates = new DataFieldTemplates();
  string text = "#\n", err;
  for (int t : tperm) text += string(TEMPLATE_LINES[t]) + "\n";
  std::istringstream ts(text);
  result_t r = templates->readFromStream(&ts, "_templates.csv", 0, false, nullptr, &err);
  obs << "templates:" << getResultCode(r) << " " << err << "\n";
  MessageMap* map = new MessageMap(false, "", true);
  PermResolver resolver(templates);
  map->setResolver(&resolver);
  text = "#\n";
  for (int m : mperm) text += string(MESSAGE_LINES[m].line) + "\n";
  std::istringstream ms(text);
  err.clear();
  r = map->readFromStream(&ms, "cfg.csv", 0, false, nullptr, &err);
  obs << "messages:" << getResultCode(r) << " " << err << "\n";
  obs << "--templates\n";
  templates->dump(OF_NONE, &obs);
  obs << "\n--templates json\n";
  templates->dump(OF_JSON | OF_ALL_ATTRS, &obs);
  obs << "\n--messages\n";
  map->dump(true, OF_DEFINITION, &obs);
  obs << "\n--messages json\n";
  map->dump(true, OF_JSON | OF_DEFINITION | OF_ALL_ATTRS, &obs);
  obs << "\n";
  vector<int> sorted = mperm;
  std::sort(sorted.begin(), sorted.end());
  for (int mi : sorted) {
    const MsgLine& L = MESSAGE_LINES[mi];
    Message* msg = map->find(L.circuit, L.name, "", L.isWrite, L.isPassive);
    obs << "--" << L.name << ": " << (msg ? "found" : "missing") << "\n";
    if (!msg) continue;
    MasterSymbolString m; m.parseHex(L.master);
    SlaveSymbolString s; s.parseHex(L.slave);
    Message* byTelegram = map->find(m, false, true, true, true, false);
    obs << "lookup:" << (byTelegram ? byTelegram->getName() : string("-")) << "\n";
    r = msg->storeLastData(m, s);
    obs << "store:" << getResultCode(r) << "\n";
    std::ostringstream d1;
    r = msg->decodeLastData(pt_any, false, nullptr, -1, OF_NAMES | OF_UNITS | OF_COMMENTS, &d1);
    obs << "decode:" << getResultCode(r) << " " << d1.str() << "\n";
    std::ostringstream d2;
    r = msg->decodeLastData(pt_any, false, nullptr, -1, OF_JSON | OF_NAMES, &d2);
    obs << "json:" << getResultCode(r) << " " << d2.str() << "\n";
    if (L.isWrite) {
      MasterSymbolString pm;
      std::istringstream in(L.input);
      r = msg->prepareMaster(0, 0x31, SYN, UI_FIELD_SEPARATOR, &in, &pm);
      obs << "prepare:" << getResultCode(r) << " " << pm.getStr() << "\n";
    }
  }
  return obs.str();
}

static string observePermutationForked(const vector<int>& tperm, const vector<int>& mperm) {
  int fd[2];
  if (pipe(fd) != 0) return "pipe failed";
  fflush(stdout);
  pid_t pid = fork();
  if (pid == 0) {
    close(fd[0]);
    string o = loadAndObserve(tperm, mperm);
    size_t off = 0;
    while (off < o.size()) { ssize_t w = write(fd[1], o.data() + off, o.size() - off); if (w <= 0) break; off += (size_t)w; }
    _exit(0);
  }
  close(fd[1]);
  string all;
  char buf[65536];
  ssize_t nr;
  while ((nr = read(fd[0], buf, sizeof(buf))) > 0) all.append(buf, (size_t)nr);
  close(fd[0]);
  int st = 0;
  waitpid(pid, &st, 0);
  if (!WIFEXITED(st) || WEXITSTATUS(st) != 0) all += "\nCHILD-FAILED status " + std::to_string(st);
  R.transitions++;
  return all;
}

static string permStr(const vector<int>& p) { string s; for (int x : p) s += std::to_string(x); return s; }
static vector<int> parsePerm(const string& s) { vector<int> v; for (char c : s) v.push_back(c - '0'); return v; }
static string firstDiff(const string& a, const string& b) {
  std::istringstream x(a), y(b);
  string la, lb;
  while (true) {
    bool ha = (bool)std::getline(x, la), hb = (bool)std::getline(y, lb);
    if (!ha && !hb) return "";
    if (!ha || !hb || la != lb) return "identity order: '" + (ha ? la : string("<end>")) + "' this order: '" + (hb ? lb : string("<end>")) + "'";
  }
}

static void permutations(int nT, int nM, int part, int nparts) {
  vector<int> tid(nT), mid(nM);
  for (int i = 0; i < nT; i++) tid[i] = i;
  for (int i = 0; i < nM; i++) mid[i] = i;
  string ref = observePermutationForked(tid, mid);
  if (ref.find("templates:done") == string::npos && ref.find("messages:done") == string::npos) {}
  if (part == 0) {
    R.sample("load order: " + std::to_string(nT) + " template lines x " + std::to_string(nM) + " message lines, all orders; observation = dumps (csv+json), lookup, decode, encode; " + std::to_string(ref.size()) + " bytes each");
    // the identity order itself must load everything (otherwise the comparison would be vacuous)
    if (ref.find("templates:done ") == string::npos || ref.find("messages:done ") == string::npos || ref.find("missing") != string::npos || ref.find("ERR:") != string::npos) {
      R.violation("C12/load-order/reference-load-failed/definitions", "the definition lines do not load in identity order: " + ref.substr(0, 300), "k=perm;t=" + permStr(tid) + ";m=" + permStr(mid));
    }
  }
  vector<int> tp = tid;
  uint64_t idx = 0;
  do {
    vector<int> mp = mid;
    do {
      if ((int)(idx++ % (uint64_t)nparts) != part) continue;
      if (R.expired()) return;
      string o = observePermutationForked(tp, mp);
      R.evaluations++; R.tracesValidated++;
      R.distinct(vp::fnv("perm" + permStr(tp) + "/" + permStr(mp)));
      if (o != ref) {
        string d = firstDiff(ref, o);
        string where = d.find("--templates") != string::npos || o.substr(0, o.find("--messages")) != ref.substr(0, ref.find("--messages")) ? "templates" : "messages";
        R.violation("C12/load-order/observation-differs/" + where, "templates order " + permStr(tp) + ", messages order " + permStr(mp) + ": " + d, "k=perm;t=" + permStr(tp) + ";m=" + permStr(mp));
      }
    } while (std::next_permutation(mp.begin(), mp.end()));
  } while (std::next_permutation(tp.begin(), tp.end()));
}

// ------------------------------------------------------------------------------------ (d) independence of definitions
// Definitions that share a base type and divisor but differ in their configured range meet in the derived
// type cache.  Every ordered selection of up to k of these lines is loaded in its own process; what each line's
// message does (dump with min/max/step, encode of probe values, decode of probe bytes) must equal what it does
// when it is the only line loaded.
struct DefLine { const char* name; const char* type; const char* div; const char* range; const char* cls; vector<const char*> probes; };
static const vector<DefLine>& defLines() {
  static const vector<DefLine> L = {
    {"u0", "UCH", "", "", "plain-nodivisor", {"5", "60", "150", "254"}},
    {"u0a", "UCH", "", "10-100", "range-nodivisor", {"5", "60", "150", "254"}},
    {"u0b", "UCH", "", "50-200", "range-nodivisor", {"5", "60", "150", "254"}},
    {"ud", "UCH", "10", "", "plain-divisor", {"0.5", "6.0", "15.0", "25.4"}},
    {"uda", "UCH", "10", "1-10", "range-divisor", {"0.5", "6.0", "15.0", "25.4"}},
    {"udb", "UCH", "10", "5-20", "range-divisor", {"0.5", "6.0", "15.0", "25.4"}},
    {"ur", "UCH", "-10", "", "plain-reciprocal", {"50", "600", "1500", "2540"}},
    {"ura", "UCH", "-10", "100-1000", "range-reciprocal", {"50", "600", "1500", "2540"}},
    {"urb", "UCH", "-10", "500-2000", "range-reciprocal", {"50", "600", "1500", "2540"}},
    {"urc", "UCH", "-10", "20-200", "range-reciprocal", {"50", "150", "600", "2540"}},
    {"sr", "SIN", "-100", "", "plain-reciprocal", {"-3000000", "-50000", "50000", "3000000"}},
    {"sra", "SIN", "-100", "-100000-100000", "range-reciprocal", {"-3000000", "-50000", "50000", "3000000"}},
    {"srb", "SIN", "-100", "-10000-10000", "range-reciprocal", {"-3000000", "-50000", "5000", "3000000"}},
    {"sd", "SIN", "100", "-10-10", "range-divisor", {"-300.00", "-5.00", "5.00", "300.00"}},
    // same type id and divisor, different bit count / different step only: further collisions of the cache keys
    {"b1", "BI0", "", "", "bits", {"0", "1", "3", "7"}},
    {"b2", "BI0:2", "", "", "bits", {"0", "1", "3", "7"}},
    {"b3", "BI0:3", "", "", "bits", {"0", "1", "3", "7"}},
    {"u0s5", "UCH", "", "10-100:5", "range-step", {"5", "60", "150", "254"}},
    {"u0s10", "UCH", "", "10-100:10", "range-step", {"5", "60", "150", "254"}},
  };
  return L;
}
static string defLineText(size_t i) {
  const DefLine& d = defLines()[i];
  char b[200];
  snprintf(b, sizeof(b), "w,cir,%s,,,08,b509,0e%02x,v,,%s,%s,%s,,", d.name, (unsigned)(i + 1), d.type, d.div, d.range);
  return b;
}
// loads the lines in this order (in this process) and returns one observation per loaded line
static vector<string> loadLinesAndObserve(const vector<int>& order) {
  vector<string> out;
  errno = 0;
  DataFieldTemplates* templates = new DataFieldTemplates();
  MessageMap* map = new MessageMap(false, "", true);
  PermResolver resolver(templates);
  map->setResolver(&resolver);
  string text = "type,circuit,name,comment,qq,zz,pbsb,id,*name,part,type,divisor/values,range,unit,comment\n", err;
  for (int i : order) text += defLineText((size_t)i) + "\n";
  std::istringstream ms(text);
  result_t lr = map->readFromStream(&ms, "cfg.csv", 0, false, nullptr, &err);
  for (int i : order) {
    const DefLine& d = defLines()[(size_t)i];
    std::ostringstream obs;
    obs << "load:" << getResultCode(lr) << " " << err << "\n";
    Message* msg = map->find("cir", d.name, "", true, false);
    if (!msg) { obs << "missing\n"; out.push_back(obs.str()); continue; }
    obs << "def:";
    msg->dump(nullptr, true, OF_DEFINITION, &obs);
    obs << "\njson:";
    msg->dump(nullptr, true, OF_JSON | OF_DEFINITION | OF_ALL_ATTRS, &obs);
    obs << "\n";
    for (const char* pv : d.probes) {
      MasterSymbolString pm;
      std::istringstream in(pv);
      result_t r = msg->prepareMaster(0, 0x31, SYN, UI_FIELD_SEPARATOR, &in, &pm);
      obs << "encode " << pv << ":" << getResultCode(r) << " " << (r == RESULT_OK ? pm.getStr() : string()) << "\n";
    }
    bool two = string(d.type) == "SIN";
    for (const char* hx : two ? vector<const char*>{"0500", "f401", "0cfe", "3075"} : vector<const char*>{"05", "3c", "96", "fe"}) {
      MasterSymbolString m;
      char hdr[32];
      snprintf(hdr, sizeof(hdr), "3108b509%02x0e%02x", two ? 4 : 3, (unsigned)(i + 1));
      m.parseHex(string(hdr) + hx);
      SlaveSymbolString sl; sl.parseHex("00");
      msg->storeLastData(m, sl);
      std::ostringstream d1;
      result_t r = msg->decodeLastData(pt_any, false, nullptr, -1, OF_NAMES, &d1);
      obs << "decode " << hx << ":" << getResultCode(r) << " " << d1.str() << "\n";
    }
    out.push_back(obs.str());
  }
  return out;
}
static vector<string> observeLinesForked(const vector<int>& order) {
  vector<string> res;
  int fd[2];
  if (pipe(fd) != 0) return res;
  fflush(stdout);
  pid_t pid = fork();
  if (pid == 0) {
    close(fd[0]);
    vector<string> o = loadLinesAndObserve(order);
    string all;
    for (auto& x : o) all += hexs(x) + "\n";
    size_t off = 0;
    while (off < all.size()) { ssize_t w = write(fd[1], all.data() + off, all.size() - off); if (w <= 0) break; off += (size_t)w; }
    _exit(0);
  }
  close(fd[1]);
  string all;
  char buf[65536];
  ssize_t nr;
  while ((nr = read(fd[0], buf, sizeof(buf))) > 0) all.append(buf, (size_t)nr);
  close(fd[0]);
  int st = 0;
  waitpid(pid, &st, 0);
  std::istringstream is(all);
  string line;
  while (std::getline(is, line)) res.push_back(unhexs(line));
  if (!WIFEXITED(st) || WEXITSTATUS(st) != 0) res.clear();
  R.transitions++;
  return res;
}
static string orderStr(const vector<int>& o) { string s; for (size_t i = 0; i < o.size(); i++) { if (i) s += "."; s += std::to_string(o[i]); } return s; }
static void definitionIndependence(int k, int part, int nparts) {
  size_t N = defLines().size();
  vector<string> alone(N);
  for (size_t i = 0; i < N; i++) {
    vector<string> o = observeLinesForked({(int)i});
    if (o.size() != 1 || o[0].find("load:done") != 0 || o[0].find("missing") != string::npos) {
      // a line that is refused on its own is refused deterministically: it takes no part in the selections
      // (a refused line ends the load of a file, which is not a dependence between definitions)
      // ... but the line is valid by the documented format, so the refusal itself is reported
      if (part == 0) {
        R.count("definition_lines_refused_alone");
        R.violation(string("C12/config-rejected/definition-line/") + defLines()[i].cls, "valid definition line refused when loaded alone: " + defLineText(i) + " -> " + (o.empty() ? string("child failed") : o[0].substr(0, 160)),
                    "k=lines;o=" + std::to_string(i) + ";x=" + std::to_string(i) + ";load=1");
      }
      continue;
    }
    if (part == 0) R.count("definition_lines_loaded_alone");
    alone[i] = o[0];
  }
  if (part == 0) R.sample("definition independence: " + std::to_string(N) + " lines sharing base type/divisor with different ranges, every ordered selection of <= " + std::to_string(k) + ", e.g. alone " + defLineText(6) + " -> " + (alone[6].empty() ? string("refused") : alone[6].substr(alone[6].find("encode"), 120)));
  uint64_t idx = 0;
  vector<int> cur;
  std::function<void()> rec = [&]() {
    if (cur.size() >= 2 && (int)(idx++ % (uint64_t)nparts) == part && !R.expired()) {
      vector<string> o = observeLinesForked(cur);
      R.evaluations++; R.tracesValidated++;
      R.distinct(vp::fnv("lines" + orderStr(cur)));
      R.count("definition_selections");
      for (size_t j = 0; j < cur.size(); j++) {
        const string& got = j < o.size() ? o[j] : string("child failed");
        if (got != alone[(size_t)cur[j]]) {
          R.violation(string("C12/load-order/definition-depends-on-others/") + defLines()[(size_t)cur[j]].cls,
                      "lines loaded in order [" + orderStr(cur) + "]: " + defLineText((size_t)cur[j]) + ": " + firstDiff(alone[(size_t)cur[j]], got),
                      "k=lines;o=" + orderStr(cur) + ";x=" + std::to_string(cur[j]));
        }
      }
    }
    if ((int)cur.size() >= k) return;
    for (size_t i = 0; i < N; i++) {
      if (alone[i].empty() || std::find(cur.begin(), cur.end(), (int)i) != cur.end()) continue;
      cur.push_back((int)i); rec(); cur.pop_back();
    }
  };
  rec();
}

// ------------------------------------------------------------------------------------ (f) independence of definition blocks
// A definition file is usually organised in blocks: a defaults line for a message type (`*r,...`, optionally with default
// fields that are prepended to every message) followed by the messages of that type.  A block whose messages all follow
// their own defaults line is independent of the blocks before it ("not on the order in which fields, templates and messages
// were loaded"): every ordered selection of up to k blocks is concatenated into one file and loaded in its own process; what
// each block's messages do (definition dump, encode of a probe value, decode of fixed bytes) must equal what they do when
// their block is the only one in the file.
struct DefBlock { const char* cls; vector<const char*> lines; vector<const char*> names; const char* circuit; bool fileOnly = false; };
static const vector<DefBlock>& defBlocks() {
  static const vector<DefBlock> B = {
    // defaults WITH a default field (prepended to the messages of the block)
    {"defaults-with-field", {"*r,heat,,,,08,b509,0d,hdr,,UCH", "r,,h1,,,,,01,v,,UCH", "r,,h2,,,,,02,t,,D2C"}, {"h1", "h2"}, "heat"},
    // defaults WITHOUT default fields for the same type
    {"defaults-without-field", {"*r,water,,,,15,b509,0e", "r,,w1,,,,,03,v,,UCH"}, {"w1"}, "water"},
    {"defaults-with-field", {"*w,heat,,,,08,b509,0e,pre,m,UCH", "w,,s1,,,,,04,v,,UCH"}, {"s1"}, "heat"},
    {"defaults-without-field", {"*w,water,,,,15,b509,0f", "w,,s2,,,,,05,v,,UCH"}, {"s2"}, "water"},
    // defaults with two default fields, one per part
    {"defaults-with-field", {"*r,solar,,,,23,b509,10,a,m,UCH,,,,b,s,UCH", "r,,o1,,,,,06,v,,UCH"}, {"o1"}, "solar"},
    // defaults that only change the circuit and destination
    {"defaults-without-field", {"*r,pool,,,,50,b510,", "r,,p1,,,,,07,v,,UIN"}, {"p1"}, "pool"},
    // a block of two types, each following its own defaults line
    {"defaults-two-types", {"*r,mix,,,,26,b511,", "*w,mix,,,,26,b511,01", "r,,m1,,,,,08,v,,UCH", "w,,m2,,,,,09,v,,UCH"}, {"m1", "m2"}, "mix"},
    // passive/update type with a default field
    {"defaults-with-field", {"*u,bc,,,,fe,b516,,kind,,UCH", "u,,t1,,,,,10,v,,UCH"}, {"t1"}, "bc"},
    {"defaults-without-field", {"*u,bc2,,,,fe,b517,", "u,,t2,,,,,11,v,,UCH"}, {"t2"}, "bc2"},
    // messages WITHOUT a defaults line of their own and with empty columns (no destination, ID without prefix): in a
    // FILE OF THEIR OWN they are independent of every file loaded before (inside one file they would legitimately
    // inherit the defaults lines above them, so they only take part in the file-wise loading)
    {"no-defaults-own-file", {"r,room,rt,,,,b511,01,temp,,D2C"}, {"rt"}, "room", true},
    {"no-defaults-own-file", {"w,room,wt,,,,b512,02,temp,,UCH"}, {"wt"}, "room", true},
  };
  return B;
}
static bool g_blocksAsFiles = false;  // every block is a file of its own (one readFromStream call per block on the same map)
static vector<string> loadBlocksAndObserve(const vector<int>& order) {
  vector<string> out;
  errno = 0;
  DataFieldTemplates* templates = new DataFieldTemplates();
  MessageMap* map = new MessageMap(false, "", true);
  PermResolver resolver(templates);
  map->setResolver(&resolver);
  string text = "# type,circuit,name,comment,qq,zz,pbsb,id,*name,part,type,divisor/values,unit,comment\n", err;
  result_t lr = RESULT_OK;
  if (g_blocksAsFiles) {
    int fileNo = 0;
    for (int i : order) {
      string ft = text;
      for (const char* l : defBlocks()[(size_t)i].lines) ft += string(l) + "\n";
      std::istringstream fs(ft);
      string ferr;
      result_t fr = map->readFromStream(&fs, "cfg" + std::to_string(fileNo++) + ".csv", 0, false, nullptr, &ferr);
      if (fr != RESULT_OK && lr == RESULT_OK) { lr = fr; err = ferr; }
    }
  } else {
    for (int i : order) for (const char* l : defBlocks()[(size_t)i].lines) text += string(l) + "\n";
    std::istringstream ms(text);
    lr = map->readFromStream(&ms, "cfg.csv", 0, false, nullptr, &err);
  }
  for (int i : order) {
    const DefBlock& b = defBlocks()[(size_t)i];
    std::ostringstream obs;
    obs << "load:" << getResultCode(lr) << " " << err << "\n";
    for (const char* name : b.names) {
      Message* msg = map->find(b.circuit, name, "", false, false);
      if (!msg) msg = map->find(b.circuit, name, "", true, false);
      if (!msg) msg = map->find(b.circuit, name, "", false, true);
      obs << name << ":";
      if (!msg) { obs << "missing\n"; continue; }
      obs << "def:";
      msg->dump(nullptr, true, OF_DEFINITION, &obs);
      obs << "\njson:";
      msg->dump(nullptr, true, OF_JSON | OF_DEFINITION | OF_ALL_ATTRS, &obs);
      obs << "\n";
      for (const char* pv : {"5", "5;7", ""}) {
        MasterSymbolString pm;
        std::istringstream in(pv);
        result_t r = msg->prepareMaster(0, 0x31, msg->getDstAddress() == SYN ? 0x08 : SYN, UI_FIELD_SEPARATOR, &in, &pm);
        obs << "encode '" << pv << "':" << getResultCode(r) << " " << (r == RESULT_OK ? pm.getStr() : string()) << "\n";
        if (r != RESULT_OK) continue;
        for (const char* sx : {"022a07", "03010203", "00", "042a070102"}) {
          SlaveSymbolString sl; sl.parseHex(sx);
          result_t sr = msg->storeLastData(pm, sl);
          std::ostringstream d1;
          result_t dr = sr == RESULT_OK ? msg->decodeLastData(pt_any, false, nullptr, -1, OF_NAMES, &d1) : sr;
          obs << " decode " << sx << ":" << getResultCode(dr) << " " << d1.str() << "\n";
        }
      }
    }
    out.push_back(obs.str());
  }
  return out;
}
static vector<string> observeBlocksForked(const vector<int>& order) {
  vector<string> res;
  int fd[2];
  if (pipe(fd) != 0) return res;
  fflush(stdout);
  pid_t pid = fork();
  if (pid == 0) {
    close(fd[0]);
    vector<string> o = loadBlocksAndObserve(order);
    string all;
    for (auto& x : o) all += hexs(x) + "\n";
    size_t off = 0;
    while (off < all.size()) { ssize_t w = write(fd[1], all.data() + off, all.size() - off); if (w <= 0) break; off += (size_t)w; }
    _exit(0);
  }
  close(fd[1]);
  string all;
  char buf[65536];
  ssize_t nr;
  while ((nr = read(fd[0], buf, sizeof(buf))) > 0) all.append(buf, (size_t)nr);
  close(fd[0]);
  int st = 0;
  waitpid(pid, &st, 0);
  std::istringstream is(all);
  string line;
  while (std::getline(is, line)) res.push_back(unhexs(line));
  if (!WIFEXITED(st) || WEXITSTATUS(st) != 0) res.clear();
  R.transitions++;
  return res;
}
static string blockText(size_t i) { string t; for (const char* l : defBlocks()[i].lines) { if (!t.empty()) t += " | "; t += l; } return t; }
static void blockIndependenceMode(int k, int part, int nparts);
static void blockIndependence(int k, int part, int nparts) {
  g_blocksAsFiles = false;
  blockIndependenceMode(k, part, nparts);
  g_blocksAsFiles = true;   // the same selections with every block loaded as a file of its own, plus the blocks without defaults line
  blockIndependenceMode(k, part, nparts);
  g_blocksAsFiles = false;
}
static void blockIndependenceMode(int k, int part, int nparts) {
  size_t N = defBlocks().size();
  vector<string> alone(N);
  for (size_t i = 0; i < N; i++) {
    vector<string> o = observeBlocksForked({(int)i});
    if (o.size() != 1 || o[0].find("load:done") != 0 || o[0].find(":missing") != string::npos) {
      if (part == 0) R.violation(string("C12/config-rejected/definition-block/") + defBlocks()[i].cls, "valid definition block refused when loaded alone: " + blockText(i) + " -> " + (o.empty() ? string("child failed") : o[0].substr(0, 200)),
                                 "k=blocks;o=" + std::to_string(i) + ";x=" + std::to_string(i) + ";load=1" + (g_blocksAsFiles ? ";files=1" : ""));
      continue;
    }
    if (part == 0) R.count("definition_blocks_loaded_alone");
    alone[i] = o[0];
  }
  if (part == 0) R.sample("block independence: " + std::to_string(N) + " blocks (defaults line + messages), every ordered selection of <= " + std::to_string(k) + ", e.g. alone " + blockText(0));
  uint64_t idx = 0;
  vector<int> cur;
  std::function<void()> rec = [&]() {
    if (cur.size() >= 2 && (int)(idx++ % (uint64_t)nparts) == part && !R.expired()) {
      vector<string> o = observeBlocksForked(cur);
      R.evaluations++; R.tracesValidated++;
      R.distinct(vp::fnv("blocks" + orderStr(cur)));
      R.count("definition_block_selections");
      for (size_t j = 0; j < cur.size(); j++) {
        const string& got = j < o.size() ? o[j] : string("child failed");
        if (got != alone[(size_t)cur[j]]) {
          // which kind of block precedes it decides the class: that is where a stale default comes from
          string before = j > 0 ? defBlocks()[(size_t)cur[j - 1]].cls : "first";
          R.violation(string("C12/load-order/block-depends-on-others/") + (g_blocksAsFiles ? "own-files/" : "one-file/") + defBlocks()[(size_t)cur[j]].cls + "/after-" + before,
                      "blocks loaded in order [" + orderStr(cur) + "]: " + blockText((size_t)cur[j]) + ": " + firstDiff(alone[(size_t)cur[j]], got),
                      "k=blocks;o=" + orderStr(cur) + ";x=" + std::to_string(cur[j]) + (g_blocksAsFiles ? ";files=1" : ""));
        }
      }
    }
    if ((int)cur.size() >= k) return;
    for (size_t i = 0; i < N; i++) {
      if (alone[i].empty() || std::find(cur.begin(), cur.end(), (int)i) != cur.end()) continue;
      if (defBlocks()[i].fileOnly && !g_blocksAsFiles) continue;
      cur.push_back((int)i); rec(); cur.pop_back();
    }
  };
  rec();
}

// ------------------------------------------------------------------------------------ (g) parts of a chained write message
// "Repeating any operation after an arbitrary sequence of other operations yields the identical result": the telegram of
// part p of a chained write message depends on the definition and the input handed to THAT call only.  Operations =
// prepareMaster(part, input) over 3 parts x 2 inputs (+ one refused input); every history of up to 3 operations on one
// message object, then every operation as probe; baseline = the probe as first operation on a freshly loaded message.
static string chainProbe(Message* msg, int part, const char* input) {
  MasterSymbolString ms;
  std::istringstream in(input);
  errno = 0;
  result_t r = msg->prepareMaster((size_t)part, 0x31, SYN, UI_FIELD_SEPARATOR, &in, &ms);
  return string(getResultCode(r)) + " " + (r == RESULT_OK ? ms.getStr() : string());
}
static void chainedPartHistories(int maxLen, int part, int nparts) {
  static const char* DEF = "w,cir,chw,,,08,b509,01:2;02:2;03:2,a,,UIN,,,,b,,UIN,,,,c,,UIN\n";
  static const char* INPUTS[] = {"4660;22136;772", "1;2;3", "1;x;3"};
  struct CO { int part; int in; };
  vector<CO> ops;
  for (int p = 0; p < 3; p++) for (int i = 0; i < 3; i++) ops.push_back({p, i});
  auto fresh = [&](MessageMap** mapOut) -> Message* {
    MessageMap* map = new MessageMap(false, "", false);
    static DataFieldTemplates* chainTemplates = new DataFieldTemplates();
    static PermResolver chainResolver(chainTemplates);
    map->setResolver(&chainResolver);
    string text = string("# type,circuit,name,comment,qq,zz,pbsb,id,*name,part,type,divisor/values,unit,comment\n") + DEF, err;
    std::istringstream is(text);
    if (map->readFromStream(&is, "chw.csv", 0, false, nullptr, &err) != RESULT_OK) { delete map; return nullptr; }
    *mapOut = map;
    return map->find("cir", "chw", "", true, false);
  };
  vector<string> base(ops.size());
  for (size_t p = 0; p < ops.size(); p++) {
    MessageMap* map = nullptr;
    Message* msg = fresh(&map);
    if (!msg) { if (part == 0) R.violation("C12/config-rejected/definition-line/chained-write", string("valid chained write definition refused: ") + DEF, "k=chain;h=;p=0"); return; }
    base[p] = chainProbe(msg, ops[p].part, INPUTS[ops[p].in]);
    delete map;
  }
  if (part == 0) R.sample(string("chained write parts: ") + DEF + " part 1 of input '1;2;3' alone -> " + base[4]);
  uint64_t idx = 0;
  vector<int> h;
  std::function<void()> rec = [&]() {
    if (!h.empty() && (int)(idx++ % (uint64_t)nparts) == part) {
      for (size_t p = 0; p < ops.size(); p++) {
        MessageMap* map = nullptr;
        Message* msg = fresh(&map);
        if (!msg) return;
        string hs;
        for (int o : h) { chainProbe(msg, ops[(size_t)o].part, INPUTS[ops[(size_t)o].in]); hs += std::to_string(o) + "."; }
        string got = chainProbe(msg, ops[p].part, INPUTS[ops[p].in]);
        R.evaluations++; R.tracesValidated++; R.transitions += h.size() + 1;
        R.distinct(vp::fnv("chain" + hs + std::to_string(p)));
        if (got != base[p]) {
          char b[200];
          snprintf(b, sizeof(b), "part %d with input '%s' after %zu earlier part encodes: %s, as first operation: %s", ops[p].part, INPUTS[ops[p].in], h.size(), got.c_str(), base[p].c_str());
          R.violation(string("C12/history-dependent/chained-part/") + (ops[p].part == 0 ? "first-part" : "later-part"), b, "k=chain;h=" + hs + ";p=" + std::to_string(p));
        }
        delete map;
      }
    }
    if ((int)h.size() >= maxLen) return;
    for (size_t o = 0; o < ops.size(); o++) { h.push_back((int)o); rec(); h.pop_back(); }
  };
  rec();
}

// ------------------------------------------------------------------------------------ (e) stream state left by other fields
// Phase 1: every registered type (with divisor / value list variants) decodes every byte pattern of a small byte
// alphabet in every format on a pristine stream; the formatting state (flags, precision, fill) each decode leaves
// behind is collected: these are exactly the states in which a following field can find the shared stream.
// Phase 2: every such decode is repeated on a stream preset to each collected state: result and text must be
// identical.  The JSON key of a field is covered by decoding with output index 11 (two digits, differs in hex/oct).
struct PVar { string type, div, values, id; };
struct SState { std::ios_base::fmtflags fl; int prec; char fill; bool operator<(const SState& o) const { return std::tie(fl, prec, fill) < std::tie(o.fl, o.prec, o.fill); } };
static string sstateStr(const SState& s) { char b[64]; snprintf(b, sizeof(b), "flags=%x,prec=%d,fill=%02x", (unsigned)s.fl, s.prec, (unsigned)(unsigned char)s.fill); return b; }
static vector<PVar> poisonVariants() {
  vector<PVar> v;
  for (auto it = DataTypeList::getInstance()->begin(); it != DataTypeList::getInstance()->end(); ++it) {
    const string& id = it->first;
    if (id.find(',') != string::npos || !g_baseKeys.count(id)) continue;  // derived cache entries
    const DataType* dt = it->second;
    if (dt->isIgnored()) continue;
    vector<string> specs;
    if (dt->isAdjustableLength()) {
      if (dt->getBitCount() % 8 == 0) { specs.push_back(id + ":2"); specs.push_back(id + ":1"); }
      else { specs.push_back(id); if (dt->getBitCount() >= 2) specs.push_back(id + ":2"); }
    } else {
      specs.push_back(id);
    }
    for (const string& sp : specs) {
      v.push_back(PVar{sp, "", "", id});
      if (dt->isNumeric() && dt->getBitCount() >= 8) {
        v.push_back(PVar{sp, "10", "", id});
        v.push_back(PVar{sp, "-10", "", id});
        if (!dt->hasFlag(EXP) && !dt->hasFlag(DAY)) v.push_back(PVar{sp, "", "1=one;10=ten;18=x12", id});
      }
    }
  }
  return v;
}
static const DataField* poisonField(const PVar& pv) {
  vector<std::map<string, string>> rows(1);
  rows[0]["name"] = "f"; rows[0]["part"] = "m"; rows[0]["type"] = pv.type;
  if (!pv.div.empty()) rows[0]["divisor"] = pv.div;
  if (!pv.values.empty()) rows[0]["values"] = pv.values;
  const DataField* f = nullptr;
  string err;
  errno = 0;
  if (DataField::create(true, false, false, MAX_POS, g_templates, &rows, &err, &f) != RESULT_OK) return nullptr;
  return f;
}
static const int POISON_FORMATS = 5;
static string poisonDecode(const DataField* f, const vector<unsigned char>& data, int fmtIdx, std::ostream* os) {
  static const OutputFormat fm[POISON_FORMATS] = {OF_NONE, OF_NAMES | OF_JSON, OF_JSON, OF_JSON, OF_NAMES | OF_NUMERIC | OF_VALUENAME};
  MasterSymbolString m;
  for (unsigned char c : {0x10, 0xfe, 0xff, 0xff}) m.push_back(c);
  m.push_back((unsigned char)data.size());
  for (unsigned char c : data) m.push_back(c);
  errno = 0;
  result_t r = f->read(m, 0, false, nullptr, -1, fm[fmtIdx], fmtIdx == 3 ? 11 : -1, os);
  R.transitions++;
  return string(getResultCode(r)) + "|" + static_cast<std::ostringstream*>(os)->str();
}
static void presetStream(std::ostringstream* os, const SState& s) { os->flags(s.fl); os->precision(s.prec); os->fill(s.fill); }
static bool g_poisonFull2 = false;  // thorough: all patterns of 1- and 2-byte types
static vector<vector<unsigned char>> poisonPatterns(size_t n) {
  static const unsigned char A12[] = {0x00, 0x01, 0x02, 0x05, 0x0a, 0x12, 0x31, 0x58, 0x63, 0x80, 0x99, 0xff};
  static const unsigned char A8[] = {0x00, 0x01, 0x02, 0x0a, 0x31, 0x58, 0x99, 0xff};
  static unsigned char ALL[256];
  for (int i = 0; i < 256; i++) ALL[i] = (unsigned char)i;
  vector<vector<unsigned char>> out;
  if (n == 0 || n > 5) return out;
  const unsigned char* a = n <= 3 ? A12 : A8;
  size_t k = n <= 3 ? 12 : (n == 4 ? 8 : 4);
  if (g_poisonFull2 && n <= 2) { a = ALL; k = 256; }
  vector<size_t> idx(n, 0);
  while (true) {
    vector<unsigned char> p(n);
    for (size_t i = 0; i < n; i++) p[i] = a[idx[i]];
    out.push_back(p);
    size_t i = 0;
    while (i < n && ++idx[i] == k) { idx[i] = 0; i++; }
    if (i == n) break;
  }
  return out;
}
// which attribute of the preset state makes the difference
static string poisonAttr(const DataField* f, const vector<unsigned char>& d, int fmt, const SState& s, const string& base) {
  std::ostringstream pr;
  SState p0{pr.flags(), (int)pr.precision(), pr.fill()};
  SState onlyBase = p0; onlyBase.fl = (p0.fl & ~std::ios_base::basefield) | (s.fl & std::ios_base::basefield);
  SState onlyFill = p0; onlyFill.fill = s.fill;
  SState onlyFloat = p0; onlyFloat.fl = (p0.fl & ~std::ios_base::floatfield) | (s.fl & std::ios_base::floatfield); onlyFloat.prec = s.prec;
  struct { const char* n; SState st; } tries[] = {{"basefield", onlyBase}, {"fill", onlyFill}, {"floatfield-precision", onlyFloat}};
  for (auto& t : tries) { std::ostringstream os; presetStream(&os, t.st); if (poisonDecode(f, d, fmt, &os) != base) return t.n; }
  return "combined";
}
static string poisonWhat(const PVar& pv, int fmt, const string& base, const string& got) {
  if (fmt == 3) {
    size_t cb = base.find("\":"), cg = got.find("\":");
    if (cb != string::npos && cg != string::npos && base.substr(cb) == got.substr(cg)) return "json-index-key";
  }
  return pv.id.substr(0, pv.id.find(':')) + (pv.div.empty() ? "" : ".div") + (pv.values.empty() ? "" : ".list");
}
static string poisonCase(const PVar& pv, const vector<unsigned char>& d, int fmt, const SState& s) {
  char b[64]; snprintf(b, sizeof(b), ";f=%d;fl=%x;p=%d;c=%02x", fmt, (unsigned)s.fl, s.prec, (unsigned)(unsigned char)s.fill);
  return "k=poison;t=" + pv.type + ";d=" + pv.div + ";v=" + hexs(pv.values) + ";b=" + vp::hex(d.data(), d.size()) + b;
}
static void poisonedStreams(int part, int nparts) {
  vector<PVar> vars = poisonVariants();
  vector<const DataField*> fields;
  vector<size_t> lens;
  for (auto& pv : vars) { const DataField* f = poisonField(pv); fields.push_back(f); lens.push_back(f ? f->getLength(pt_masterData, MAX_POS) : 0); }
  // phase 1
  std::set<SState> states;
  std::ostringstream pristine;
  SState p0{pristine.flags(), (int)pristine.precision(), pristine.fill()};
  for (size_t i = 0; i < vars.size(); i++) {
    if (!fields[i]) continue;
    for (auto& d : poisonPatterns(lens[i])) for (int fmt = 0; fmt < POISON_FORMATS; fmt++) {
      std::ostringstream os;
      poisonDecode(fields[i], d, fmt, &os);
      SState s{os.flags(), (int)os.precision(), os.fill()};
      if (s < p0 || p0 < s) states.insert(s);
    }
  }
  if (part == 0) {
    string all;
    for (auto& s : states) all += " [" + sstateStr(s) + "]";
    R.sample("stream states left behind by some field decode (" + std::to_string(states.size()) + "):" + all.substr(0, 600));
    R.counters["stream_states_left_by_fields"] = states.size();
    R.counters["stream_state_type_variants"] = vars.size();
  }
  // phase 2
  for (size_t i = 0; i < vars.size(); i++) {
    if (!fields[i] || (int)(i % (size_t)nparts) != part) continue;
    if (R.expired()) break;
    for (auto& d : poisonPatterns(lens[i])) for (int fmt = 0; fmt < POISON_FORMATS; fmt++) {
      std::ostringstream b0;
      string base = poisonDecode(fields[i], d, fmt, &b0);
      for (auto& s : states) {
        std::ostringstream os;
        presetStream(&os, s);
        string got = poisonDecode(fields[i], d, fmt, &os);
        R.evaluations++; R.tracesValidated++;
        if (got != base) {
          string attr = poisonAttr(fields[i], d, fmt, s, base);
          R.violation("C12/stream-state-dependent/" + attr + "/" + poisonWhat(vars[i], fmt, base, got),
                      vars[i].type + (vars[i].div.empty() ? "" : "," + vars[i].div) + (vars[i].values.empty() ? "" : " values " + vars[i].values) + " data " + vp::hex(d.data(), d.size()) +
                      " format " + std::to_string(fmt) + ": on a pristine stream '" + vp::jsonEscape(base) + "', on a stream left with " + sstateStr(s) + " '" + vp::jsonEscape(got) + "'",
                      poisonCase(vars[i], d, fmt, s));
        }
      }
      R.distinct(vp::fnv("poison|" + vars[i].type + "|" + vars[i].div + "|" + vars[i].values + "|" + vp::hex(d.data(), d.size()) + "|" + std::to_string(fmt)));
    }
  }
}

// ------------------------------------------------------------------------------------ replay
static int replay(const string& c) {
  auto m = vp::parseCase(c);
  if (m["k"] == "perm") {
    vector<int> tp = parsePerm(m["t"]), mp = parsePerm(m["m"]);
    vector<int> tid = tp, mid = mp;
    std::sort(tid.begin(), tid.end()); std::sort(mid.begin(), mid.end());
    string ref = observePermutationForked(tid, mid), o = observePermutationForked(tp, mp);
    printf("templates order %s messages order %s\n", m["t"].c_str(), m["m"].c_str());
    if (m["dump"] == "1") printf("%s\n", o.c_str());
    if (o == ref) { printf("observation identical to identity order (%zu bytes)\nOK\n", o.size()); return 0; }
    printf("%s\nVIOLATES\n", firstDiff(ref, o).c_str());
    return 1;
  }
  if (m["k"] == "poison") {
    PVar pv{m["t"], m["d"], unhexs(m["v"]), m["t"]};
    const DataField* f = poisonField(pv);
    if (!f) { printf("definition refused\n"); return 2; }
    vector<unsigned char> d = unhexBytes(m["b"]);
    int fmt = atoi(m["f"].c_str());
    SState st{(std::ios_base::fmtflags)strtoul(m["fl"].c_str(), 0, 16), atoi(m["p"].c_str()), (char)strtoul(m["c"].c_str(), 0, 16)};
    std::ostringstream a, b;
    string base = poisonDecode(f, d, fmt, &a);
    presetStream(&b, st);
    string got = poisonDecode(f, d, fmt, &b);
    printf("field %s%s%s data %s format %d%s\n", pv.type.c_str(), pv.div.empty() ? "" : ("," + pv.div).c_str(), pv.values.empty() ? "" : (" values " + pv.values).c_str(), m["b"].c_str(), fmt, fmt == 3 ? " (JSON without names, output index 11)" : "");
    printf("pristine stream: '%s'\n", vp::jsonEscape(base).c_str());
    printf("stream left with %s: '%s'\n", sstateStr(st).c_str(), vp::jsonEscape(got).c_str());
    if (got == base) { printf("OK\n"); return 0; }
    printf("attribute: %s\nVIOLATES\n", poisonAttr(f, d, fmt, st, base).c_str());
    return 1;
  }
  if (m["k"] == "chain") {
    // re-run the one history
    static const char* DEF = "w,cir,chw,,,08,b509,01:2;02:2;03:2,a,,UIN,,,,b,,UIN,,,,c,,UIN\n";
    static const char* INPUTS[] = {"4660;22136;772", "1;2;3", "1;x;3"};
    auto fresh = [&](MessageMap** mapOut) -> Message* {
      MessageMap* map = new MessageMap(false, "", false);
      static DataFieldTemplates* chainTemplates = new DataFieldTemplates();
      static PermResolver chainResolver(chainTemplates);
      map->setResolver(&chainResolver);
      string text = string("# type,circuit,name,comment,qq,zz,pbsb,id,*name,part,type,divisor/values,unit,comment\n") + DEF, err;
      std::istringstream is(text);
      if (map->readFromStream(&is, "chw.csv", 0, false, nullptr, &err) != RESULT_OK) { delete map; return nullptr; }
      *mapOut = map;
      return map->find("cir", "chw", "", true, false);
    };
    int p = atoi(m["p"].c_str());
    MessageMap *m1 = nullptr, *m2 = nullptr;
    Message* a = fresh(&m1);
    Message* b = fresh(&m2);
    if (!a || !b) { printf("definition refused: %s\nVIOLATES\n", DEF); return 1; }
    printf("definition: %s", DEF);
    string baseline = chainProbe(a, p / 3, INPUTS[p % 3]);
    printf("probe part %d input '%s' as first operation: %s\n", p / 3, INPUTS[p % 3], baseline.c_str());
    std::istringstream hs(m["h"]);
    string t;
    while (std::getline(hs, t, '.')) if (!t.empty()) { int o = atoi(t.c_str()); printf("  earlier: part %d input '%s' -> %s\n", o / 3, INPUTS[o % 3], chainProbe(b, o / 3, INPUTS[o % 3]).c_str()); }
    string got = chainProbe(b, p / 3, INPUTS[p % 3]);
    printf("probe after that history: %s\n", got.c_str());
    if (got == baseline) { printf("OK\n"); return 0; }
    printf("VIOLATES\n");
    return 1;
  }
  if (m["k"] == "blocks") {
    g_blocksAsFiles = m["files"] == "1";
    vector<int> order;
    { std::istringstream os(m["o"]); string t; while (std::getline(os, t, '.')) order.push_back(atoi(t.c_str())); }
    int x = atoi(m["x"].c_str());
    vector<string> a = observeBlocksForked({x}), o = observeBlocksForked(order);
    printf("blocks loaded in this order:\n");
    for (int i : order) printf("  [%d] %s\n", i, blockText((size_t)i).c_str());
    size_t pos = std::find(order.begin(), order.end(), x) - order.begin();
    if (a.size() != 1 || pos >= o.size()) { printf("child failed\nVIOLATES\n"); return 1; }
    if (m["load"] == "1") {
      bool okl = a[0].find("load:done") == 0 && a[0].find(":missing") == string::npos;
      printf("loaded alone: %s", a[0].substr(0, a[0].find('\n') + 1).c_str());
      printf(okl ? "OK\n" : "VIOLATES (valid definition block refused)\n");
      return okl ? 0 : 1;
    }
    if (a[0] == o[pos]) { printf("block %d behaves as when loaded alone\nOK\n", x); return 0; }
    printf("block %d: %s (first: loaded alone)\nVIOLATES\n", x, firstDiff(a[0], o[pos]).c_str());
    return 1;
  }
  if (m["k"] == "lines") {
    vector<int> order;
    { std::istringstream os(m["o"]); string t; while (std::getline(os, t, '.')) order.push_back(atoi(t.c_str())); }
    int x = atoi(m["x"].c_str());
    vector<string> a = observeLinesForked({x}), o = observeLinesForked(order);
    printf("lines loaded in this order:\n");
    for (int i : order) printf("  [%d] %s\n", i, defLineText((size_t)i).c_str());
    size_t pos = std::find(order.begin(), order.end(), x) - order.begin();
    if (a.size() != 1 || pos >= o.size()) { printf("child failed\nVIOLATES\n"); return 1; }
    if (m["load"] == "1") {
      bool okl = a[0].find("load:done") == 0 && a[0].find("missing") == string::npos;
      printf("loaded alone: %s", a[0].substr(0, a[0].find('\n') + 1).c_str());
      printf(okl ? "OK\n" : "VIOLATES (valid definition refused)\n");
      return okl ? 0 : 1;
    }
    if (a[0] == o[pos]) { printf("line %d behaves as when loaded alone\nOK\n", x); return 0; }
    printf("line %d: %s (first: loaded alone)\nVIOLATES\n", x, firstDiff(a[0], o[pos]).c_str());
    return 1;
  }
  vector<int> hist;
  {
    string h = m["h"];
    size_t pos = 0;
    while (pos < h.size()) {
      size_t e = h.find(',', pos);
      if (e == string::npos) e = h.size();
      int i = opIndex(h.substr(pos, e - pos));
      if (i < 0) { printf("unknown operation %s\n", h.substr(pos, e - pos).c_str()); return 2; }
      hist.push_back(i);
      pos = e + 1;
    }
  }
  int p = opIndex(m["p"]);
  if (p < 0) { printf("unknown probe\n"); return 2; }
  Run base = runHistory({}, {p});
  Run r = runHistory(hist, {p});
  printf("probe %s (%c %s '%s')\n", g_ops[p].id, g_ops[p].kind, g_ops[p].fields[0].type, g_ops[p].input);
  printf("pristine process: state %s -> '%s'\n", base.stateAfterHistory.c_str(), vp::jsonEscape(base.probes[0].obs).c_str());
  printf("after history [%s]: state %s -> '%s'\n", histStr(hist).c_str(), r.stateAfterHistory.c_str(), vp::jsonEscape(r.probes[0].obs).c_str());
  bool bad = !base.ok || !r.ok || base.probes[0].obs != r.probes[0].obs;
  if (bad) {
    g_baseline.assign(g_ops.size(), "");
    g_baseline[p] = base.probes[0].obs;
    printf("cause: %s\nVIOLATES\n", diagnose(hist, p, r.stateAfterHistory, base.probes[0].obs).c_str());
  } else {
    printf("OK\n");
  }
  return bad ? 1 : 0;
}

// ------------------------------------------------------------------------------------ main
int main(int argc, char** argv) {
  vp::Args A = vp::parseArgs(argc, argv);
  bool thorough = A.thorough() || A.replay;
  initOps(thorough);
  initProcessState();
  if (A.replay) return replay(A.replayCase);
  R.setDeadline(A);
  size_t nOps = g_ops.size();
  vector<int> allOps(nOps);
  for (size_t i = 0; i < nOps; i++) allOps[i] = (int)i;

  // baseline: every operation in a pristine forked process
  Run base = runHistory({}, allOps);
  if (!base.ok) { fprintf(stderr, "baseline run failed\n"); return 3; }
  g_baseline.resize(nOps);
  for (size_t i = 0; i < nOps; i++) g_baseline[i] = base.probes[i].obs;
  // the baseline itself must be reproducible
  Run base2 = runHistory({}, allOps);
  for (size_t i = 0; i < nOps; i++) if (base2.probes[i].obs != g_baseline[i]) { fprintf(stderr, "baseline of %s not reproducible\n", g_ops[i].id); return 3; }
  if (A.part == 0) {
    R.sample(string("pristine state: ") + base.stateAfterHistory);
    for (const char* id : {"eUCH5", "eULGovf", "dPINmix", "cD2Crng"}) { int i = opIndex(id); R.sample(string("baseline ") + id + " -> " + g_baseline[i].substr(0, 160)); }
  }

  // (a) BFS over histories to the fixpoint of canonical states.  Every partition runs the same search
  // (it needs the visited set for (b)); only partition 0 reports its counts and deviations.
  struct Node { vector<int> hist; string state; };
  std::deque<Node> queue;
  std::set<string> visited;
  bool rep = A.part == 0;
  visited.insert(base.stateAfterHistory);
  queue.push_back(Node{{}, base.stateAfterHistory});
  if (rep) R.state(base.stateAfterHistory);
  size_t maxDepth = (size_t)A.getInt("maxdepth", 24), deepest = 0;
  bool capped = false;
  uint64_t expanded = 0;
  while (!queue.empty() && !R.expired()) {
    Node nd = queue.front(); queue.pop_front();
    deepest = std::max(deepest, nd.hist.size());
    Run r = runInWorker(nd.hist);
    if (r.ok && (nd.hist.size() <= 2 || (expanded++ % 32) == 0)) {
      // the worker (snapshot restore) must agree with a freshly forked process
      Run f = runHistory(nd.hist, allOps, FIX_NONE, false);
      bool same = f.ok && f.stateAfterHistory == r.stateAfterHistory;
      for (size_t p = 0; same && p < nOps; p++) same = f.probes[p].obs == r.probes[p].obs && f.probes[p].state == r.probes[p].state;
      if (rep) R.count("worker_vs_fork_crosschecks");
      if (!same) R.violation("C12/harness/restore-incomplete/worker", "worker and fresh fork disagree after history " + histStr(nd.hist), "k=hist;h=" + histStr(nd.hist) + ";p=" + g_ops[0].id);
    }
    if (!r.ok) { R.violation("C12/harness/child-failed/replay", "child process failed for history " + histStr(nd.hist), "k=hist;h=" + histStr(nd.hist) + ";p=" + g_ops[0].id); continue; }
    if (r.stateAfterHistory != nd.state) {
      // the canonical state must be reproduced by replaying the history
      R.violation("C12/harness/state-not-reproduced/replay", "history " + histStr(nd.hist) + " gave state " + r.stateAfterHistory + " instead of " + nd.state, "k=hist;h=" + histStr(nd.hist) + ";p=" + g_ops[0].id);
    }
    for (size_t p = 0; p < nOps; p++) {
      if (rep) {
        R.evaluations++; R.tracesValidated++;
        R.distinct(vp::fnv(nd.state + "|" + g_ops[p].id));
        if (r.probes[p].obs != g_baseline[p]) reportDeviation(nd.hist, (int)p, nd.state, r.probes[p].obs);
      }
      const string& st = r.probes[p].state;
      if (!visited.count(st)) {
        if (nd.hist.size() >= maxDepth) { capped = true; continue; }
        visited.insert(st);
        if (rep) R.state(st);
        vector<int> h = nd.hist; h.push_back((int)p);
        queue.push_back(Node{h, st});
      }
    }
  }
  if (capped || !queue.empty()) R.cap("search ended before the fixpoint of canonical states");
  if (rep) {
    R.counters["bfs_deepest_history"] = deepest;
    R.counters["bfs_fixpoint_states"] = visited.size();
    R.sample("fixpoint: " + std::to_string(visited.size()) + " canonical states, deepest shortest history " + std::to_string(deepest) + ", every one of " + std::to_string(nOps) + " operations probed in each");
  } else {
    R.transitions = 0;  // the duplicate searches of the other partitions are not counted
  }

  // (b) stateless validation of the fingerprint and of the in-process restore: all histories up to
  // length L without hashing (partitioned by first operation); every probe result and every reached
  // state must be one the hashed search has seen; up to length 1 each probe also runs in its own fork.
  int L = (int)A.getInt("stateless", thorough ? 3 : 2);
  {
    vector<int> h;
    std::function<void()> rec = [&]() {
      if (R.expired()) return;
      if (!h.empty()) {
        Run r = h.size() <= 2 ? runHistory(h, allOps, FIX_NONE, false) : runInWorker(h);
        if (!r.ok) { R.violation("C12/harness/child-failed/stateless", "child process failed for history " + histStr(h), "k=hist;h=" + histStr(h) + ";p=" + g_ops[0].id); return; }
        R.count("stateless_histories");
        if (!visited.count(r.stateAfterHistory))
          R.violation("C12/harness/fingerprint-incomplete/stateless", "history " + histStr(h) + " reaches state " + r.stateAfterHistory + " that the hashed search did not visit", "k=hist;h=" + histStr(h) + ";p=" + g_ops[0].id);
        for (size_t p = 0; p < nOps; p++) {
          R.evaluations++; R.tracesValidated++;
          if (r.probes[p].obs != g_baseline[p]) reportDeviation(h, (int)p, r.stateAfterHistory, r.probes[p].obs);
        }
        if (h.size() <= 1) {
          Run f = runHistory(h, allOps, FIX_NONE, true);
          for (size_t p = 0; p < nOps; p++) if (!f.ok || f.probes[p].obs != r.probes[p].obs || f.probes[p].state != r.probes[p].state)
            R.violation("C12/harness/restore-incomplete/stateless", "probe " + string(g_ops[p].id) + " after " + histStr(h) + " differs between a fresh fork and the restored process", "k=hist;h=" + histStr(h) + ";p=" + g_ops[p].id);
          R.count("forked_probe_crosschecks", nOps);
        }
      }
      if ((int)h.size() >= L) return;
      for (size_t p = 0; p < nOps; p++) {
        if (h.empty() && (int)(p % (size_t)A.nparts) != A.part) continue;
        h.push_back((int)p); rec(); h.pop_back();
      }
    };
    rec();
  }

  stopWorker();

  // (c) load order
  int nT = (int)A.getInt("templates", thorough ? 4 : 3), nM = (int)A.getInt("messages", thorough ? 6 : 4);
  permutations(nT, nM, A.part, A.nparts);

  // (d) independence of definitions that meet in the derived type cache
  definitionIndependence((int)A.getInt("lines", thorough ? 4 : 3), A.part, A.nparts);

  // (g) parts of a chained write message
  chainedPartHistories((int)A.getInt("chainhist", thorough ? 4 : 3), A.part, A.nparts);

  // (f) independence of definition blocks (defaults line + messages)
  blockIndependence((int)A.getInt("blocks", thorough ? 4 : 3), A.part, A.nparts);

  // (e) formatting state left on the shared stream by other fields
  g_poisonFull2 = thorough;
  poisonedStreams(A.part, A.nparts);

  R.note("states/transitions of the hashed search are reported by partition 0 only; the other partitions repeat it silently to validate the stateless enumeration against its visited set");
  R.write(A.out);
  return 0;
}
