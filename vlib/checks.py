"""Per-property check definitions (which harnesses, which bounds)."""

CHECKS = {}
NOT_APPLICABLE = {}
# properties whose checks have been run end-to-end by the orchestrator and are registered in MANIFEST.json
READY = ["C01", "C02", "C03", "C04", "C07", "C08", "C09", "C10", "C11", "C12", "C13", "C15", "C17", "C19"]
ENGINES = [
    {"name": "codec", "path": "engines/codec", "serves_properties": ["C05", "C06", "C07", "C10", "C11", "C12"],
     "kind_free_text": "bounded-exhaustive enumeration of finite input domains / BFS over operation histories of the real codec objects against exact-arithmetic reference models"},
]

CHECKS["C11"] = {
    "engine": "codec", "design_ref": "5/C11",
    "level": "exploration",
    "level_text": "every input of the finite domains is evaluated on the real functions against a bitwise reference; the per-symbol CRC fold is covered for all 65536 steps, which extends to strings of every length by induction",
    "level_note": "trusts the reference (bitwise division, escape rules, nibble set) and gcc ASan/UBSan; strings longer than the bounds are covered only through the fold argument",
    "technique": "bounded-exhaustive enumeration of the real functions against a reference model",
    "rule": "exhaustive enumeration: all 65536 (crc,symbol) table steps; all 256 addresses for every predicate/mapping "
            "plus global bijection/order relations; calcCrc and escape round trip on all raw strings of length<=2 over "
            "all bytes and length<=6 (thorough 8, and length 3 over all bytes) over {00,01,A8,A9,AA,AB,FF}; "
            "parseHexEscaped on all escaped strings of length<=2 over all bytes, all length-3 strings containing A9/AA "
            "(thorough: all length-3), and length<=6/8 over the alphabet. distinct = distinct inputs.",
    "assumptions": ["reference CRC is bitwise division by x^8+x^7+x^4+x^3+x+1, init 0, over the escaped sequence; "
                    "induction over the per-symbol fold extends the 65536-step result to every length"],
    "runs": [{
        "harness": "c11_symbol", "sources": ["engines/codec/c11_symbol.cpp"], "variant": "san",
        "quick": {"parts": 1, "bounds": "len<=2 all bytes, len<=6 alphabet"},
        "thorough": {"parts": 1, "bounds": "len<=3 all bytes, len<=8 alphabet"},
    }],
}


# ---- per-engine check definition modules (vlib/checks_<engine>.py), each defining CHECKS / ENGINES ----
import glob as _glob
import importlib as _importlib
import os as _os

for _f in sorted(_glob.glob(_os.path.join(_os.path.dirname(__file__), "checks_*.py"))):
    _m = _importlib.import_module("vlib." + _os.path.basename(_f)[:-3])
    CHECKS.update(getattr(_m, "CHECKS", {}))
    ENGINES.extend(getattr(_m, "ENGINES", []))
    NOT_APPLICABLE.update(getattr(_m, "NOT_APPLICABLE", {}))
