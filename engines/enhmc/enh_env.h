// enhmc environment: everything the explorer owns around the REAL FileTransport / EnhancedDevice /
// PlainDevice: a sentinel file descriptor served from scripted chunks (harness definitions of
// read/write/close/ppoll, other fds are forwarded as raw syscalls), a virtual clock (time,
// clock_gettime, usleep), a transport subclass that only provides openInternal/checkDevice, and a
// DeviceListener that records the diagnostic notifications.
#ifndef VERIF_ENH_ENV_H_
#define VERIF_ENH_ENV_H_

#include <errno.h>
#include <poll.h>
#include <stdint.h>
#include <string.h>
#include <sys/syscall.h>
#include <time.h>
#include <unistd.h>
#include <map>
#include <string>
#include <vector>
#include "lib/ebus/device_trans.h"
#include "lib/ebus/transport.h"

namespace env {

static const int FD = 1000;  // sentinel descriptor: never a real one

// ---- virtual clock -------------------------------------------------------------------------
static const uint64_t BASE_MS = 1700000000000ULL;  // exact second boundary
static uint64_t g_nowMs = BASE_MS;

// ---- the scripted descriptor ---------------------------------------------------------------
struct Chunk {
  uint8_t n, off;
  uint8_t b[72];
};
static const int QCAP = 24;
static Chunk g_q[QCAP];
static int g_qh = 0, g_qt = 0;      // queue of chunks still to be returned by read()
static bool g_starved = false;      // a ppoll found the descriptor empty (a timeout happened)
static bool g_closed = false;       // close(FD) was called
static uint64_t g_polls = 0, g_reads = 0, g_writes = 0;
static uint8_t g_wlog[96];          // bytes written to FD
static uint8_t g_wsizes[48];        // size of each write call
static int g_wn = 0, g_wcalls = 0;
static bool g_wOverflow = false;
static bool g_harnessError = false;  // the harness was used outside its contract

// ---- synchronous reference scanner over the bytes the implementation has actually read -------------
// Written from docs/enhanced_proto.md / the C14 statement like RefEnhDecoder: it only remembers whether
// the bytes read so far contain (a) an item that may cancel a running arbitration (RESETTED, ERROR_*,
// undefined command, second byte without first byte, first byte followed by a non-second byte) and
// (b) a SYN symbol.  A first byte whose successor has not been read yet is neither.
struct ReadMonitor {
  uint8_t pendFirst;  // 0 or the first byte waiting for its second byte
  uint8_t sawCause;
  uint8_t sawSyn;
  void byte(uint8_t b) {
    if (pendFirst) {
      uint8_t f = pendFirst;
      pendFirst = 0;
      if ((b & 0xc0) != 0x80) {  // malformed: dangling first byte; b is swallowed or decoded on its own
        sawCause = 1;
        if (b >= 0xc0) pendFirst = b;  // reading "decoded on its own" (the other reading can only hide a cause, never add one)
        return;
      }
      uint8_t cmd = (f >> 2) & 0x0f, data = static_cast<uint8_t>(((f & 3) << 6) | (b & 0x3f));
      if (cmd == 0x1) { if (data == 0xaa) sawSyn = 1; }
      else if (cmd == 0x2 || cmd == 0xa || cmd == 0x3) {}  // STARTED, FAILED, INFO
      else sawCause = 1;                                   // RESETTED, ERROR_EBUS, ERROR_HOST, undefined
      return;
    }
    if (b < 0x80) return;
    if ((b & 0xc0) == 0x80) { sawCause = 1; return; }
    pendFirst = b;
  }
};
static ReadMonitor g_mon = {0, 0, 0};

inline bool fdEmpty() { return g_qh == g_qt; }
inline void fdClear() { g_qh = g_qt = 0; }
inline void fdPush(const uint8_t* p, int n, bool coalesce = false) {
  if (n <= 0) return;
  if (coalesce && g_qh != g_qt) {
    Chunk& c = g_q[g_qt - 1];
    if (c.n + n <= static_cast<int>(sizeof(c.b))) {
      memcpy(c.b + c.n, p, n);
      c.n = static_cast<uint8_t>(c.n + n);
      return;
    }
  }
  if (g_qh == g_qt) g_qh = g_qt = 0;
  if (g_qt >= QCAP || n > static_cast<int>(sizeof(g_q[0].b))) {
    g_harnessError = true;
    return;
  }
  Chunk& c = g_q[g_qt++];
  c.n = static_cast<uint8_t>(n);
  c.off = 0;
  memcpy(c.b, p, n);
}
inline int fdPending() {
  int t = 0;
  for (int i = g_qh; i < g_qt; i++) t += g_q[i].n - g_q[i].off;
  return t;
}
inline void resetIoLog() {
  g_wn = g_wcalls = 0;
  g_wOverflow = false;
}
inline void resetAll() {
  fdClear();
  g_starved = g_closed = false;
  g_nowMs = BASE_MS;
  resetIoLog();
}

}  // namespace env

// ---- link-time interposition (definitions in the executable win over libc / libasan) -------
extern "C" {

ssize_t read(int fd, void* buf, size_t n) {
  if (fd != env::FD) return syscall(SYS_read, fd, buf, n);
  env::g_reads++;
  if (env::g_qh == env::g_qt || n == 0) return 0;
  env::Chunk& c = env::g_q[env::g_qh];
  size_t avail = static_cast<size_t>(c.n - c.off);
  size_t k = avail < n ? avail : n;
  memcpy(buf, c.b + c.off, k);
  for (size_t i = 0; i < k; i++) env::g_mon.byte(c.b[c.off + i]);
  c.off = static_cast<uint8_t>(c.off + k);
  if (c.off >= c.n) env::g_qh++;
  return static_cast<ssize_t>(k);
}

ssize_t write(int fd, const void* buf, size_t n) {
  if (fd != env::FD) return syscall(SYS_write, fd, buf, n);
  env::g_writes++;
  if (env::g_wcalls < static_cast<int>(sizeof(env::g_wsizes)) && env::g_wn + n <= sizeof(env::g_wlog)) {
    memcpy(env::g_wlog + env::g_wn, buf, n);
    env::g_wn += static_cast<int>(n);
    env::g_wsizes[env::g_wcalls++] = static_cast<uint8_t>(n);
  } else {
    env::g_wOverflow = true;
  }
  return static_cast<ssize_t>(n);
}

int close(int fd) {
  if (fd != env::FD) return static_cast<int>(syscall(SYS_close, fd));
  env::g_closed = true;
  return 0;
}

int ppoll(struct pollfd* fds, nfds_t nfds, const struct timespec* tmo, const sigset_t* sigmask) {
  if (nfds != 1 || fds[0].fd != env::FD) {
    return static_cast<int>(syscall(SYS_ppoll, fds, nfds, tmo, sigmask, 8));
  }
  env::g_polls++;
  if (env::g_qh != env::g_qt) {
    fds[0].revents = POLLIN;
    return 1;
  }
  // nothing to read: the whole timeout elapses
  env::g_starved = true;
  if (tmo) env::g_nowMs += static_cast<uint64_t>(tmo->tv_sec) * 1000 + static_cast<uint64_t>(tmo->tv_nsec) / 1000000;
  fds[0].revents = 0;
  return 0;
}

time_t time(time_t* t) {
  time_t v = static_cast<time_t>(env::g_nowMs / 1000);
  if (t) *t = v;
  return v;
}

int clock_gettime(clockid_t id, struct timespec* ts) {
  (void)id;
  ts->tv_sec = static_cast<time_t>(env::g_nowMs / 1000);
  ts->tv_nsec = static_cast<long>((env::g_nowMs % 1000) * 1000000);
  return 0;
}

int usleep(useconds_t us) {
  env::g_nowMs += us / 1000;
  return 0;
}

}  // extern "C"

namespace env {

// ---- the real FileTransport with only the abstract parts supplied --------------------------
// In the plain build the receive buffer of copies is kept inside the object (no malloc per copy);
// under AddressSanitizer it stays a heap block of exactly m_bufSize bytes so that any access
// beyond it is reported.
#if defined(__SANITIZE_ADDRESS__)
#define ENH_INLINE_BUFFER 0
#else
#define ENH_INLINE_BUFFER 1
#endif
class SimTransport : public ebusd::FileTransport {
 public:
  SimTransport() : ebusd::FileTransport("sim", 0, false) { adopt(nullptr); }
  // deep copy (the implicit FileTransport copy is shallow for the malloc'ed buffer)
  SimTransport(const SimTransport& o) : ebusd::FileTransport(o) {
    m_buffer = nullptr;
    adopt(o.m_buffer);
  }
  ~SimTransport() override {
    m_fd = -1;  // never "close" the sentinel when a copy is dropped
    if (m_buffer == m_inline) m_buffer = nullptr;
  }
  std::string getTransportInfo() const override { return "sim"; }
  ebusd::result_t openInternal() override {
    m_fd = FD;
    return ebusd::RESULT_OK;
  }

 protected:
  void checkDevice() override {}

 private:
  void adopt(const ebusd::symbol_t* from) {
    if (ENH_INLINE_BUFFER && m_bufSize <= sizeof(m_inline)) {
      if (m_buffer && !from) free(m_buffer);  // the block FileTransport() allocated
      m_buffer = m_inline;
    } else if (from) {
      m_buffer = reinterpret_cast<ebusd::symbol_t*>(malloc(m_bufSize ? m_bufSize : 1));
    }
    if (from && m_bufSize) memcpy(m_buffer, from, m_bufSize);  // whole block, stale bytes included
  }
  ebusd::symbol_t m_inline[64];
};

// ---- notification recorder ----------------------------------------------------------------
// texts are interned so that observations are small; ids depend on first-use order and are only
// used inside one process (never in signatures, cases or replay output)
static std::vector<std::string> g_texts;
static std::map<std::string, int> g_textIds;
inline int internText(const std::string& s) {
  auto it = g_textIds.find(s);
  if (it != g_textIds.end()) return it->second;
  int id = static_cast<int>(g_texts.size());
  g_texts.push_back(s);
  g_textIds[s] = id;
  return id;
}

}  // namespace env

#endif  // VERIF_ENH_ENV_H_
